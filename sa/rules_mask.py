"""Rules over `_mask` / `mask` (C03, parts of C08, C10, C19) -- table B9 and the
per-name table of DESIGN section 3 (C03)."""
import ast
import itertools

from .index import Inconclusive, norm
from .interp import Interp, Policy, show, show_lit, walk_effects, K, NONE, subterms, mentions
from .algebra import Protocol, Sides, KINDS, kind_of_attr_term, SIG
from .rules_merge import site, fkey, lits_text
from .rules_embed import _bind

FLAGS = ['hide_args', 'hide_kwargs', 'hide_varargs', 'hide_varkwargs']


KNOWN_HELPERS = frozenset(['sort_params', 'apply_params', 'copy_sources', '_remove_from_src', '_pnames', '_pop_chain', '_mask', 'mask',
                           'merge', 'embed', '_embed', 'forwards', 'merge_depths', '_check_no_dupes', '_clear_defaults'])


def _no_inline(fi, depth, node):
    # helpers the rules know by name stay calls (their contracts are checked on their own); a private module-level helper
    # the rules have never heard of is a piece of _mask that was extracted: it is read in place
    return fi.module.name == SIG and fi.cls is None and fi.name.startswith('_') and fi.name not in KNOWN_HELPERS and depth < 2


class MaskModel(object):
    def __init__(self, repo, proto=None):
        self.repo = repo
        self.proto = proto or Protocol(repo)
        self.fi = repo.func(SIG + ':_mask')
        self.pub = repo.func(SIG + ':mask')
        self._roles()
        self.interp = Interp(repo, Policy(inline=_no_inline, split_ifexp='assign-only'))
        self.paths = self.interp.run(self.fi)
        # the classification result
        self.sr = None
        for p in self.paths:
            for e in p.effects:
                if e.kind == 'call' and isinstance(e.op, str) and e.op.endswith(':sort_params'):
                    self.sr = e.result
                    self.sr_call = e
                    break
            if self.sr is not None:
                break
        if self.sr is None:
            raise Inconclusive('_mask: classification by sort_params not found')
        if self.sr_call.args[0] != self.role_term('sig'):
            raise Inconclusive('_mask: sort_params is not applied to the signature parameter')
        self.sides = Sides(self.proto, [(self.sr, 'sig')])
        self.ap = repo.func(SIG + ':apply_params')
        self.ret_paths = []
        self.raise_paths = []
        self.early_rets = []     # returning paths that do not go through apply_params (judged by early_returns())
        for p in self.paths:
            if p.status == 'return':
                v = p.value
                if not (v[0] == 'C' and isinstance(v[1], str) and v[1].endswith(':apply_params')):
                    self.early_rets.append(p)
                    continue
                b = _bind(self.ap, v[2], v[3])
                if b is None:
                    raise Inconclusive('_mask: cannot bind apply_params arguments')
                apos = self.ap.params()[0]
                if len(apos) < 7:
                    raise Inconclusive('apply_params signature changed')
                items = [b.get(n) for n in apos[1:7]]
                if b.get(apos[0]) != self.role_term('sig'):
                    raise Inconclusive('_mask: apply_params is not applied to the signature parameter')
                self.ret_paths.append((p, items))
            elif p.status == 'raise':
                self.raise_paths.append(p)
        if not self.ret_paths:
            raise Inconclusive('_mask: no returning path')

    # -- roles of _mask's parameters, derived from mask()'s call -----------------
    def _roles(self):
        it = Interp(self.repo, Policy())
        paths = it.run(self.pub)
        call = None
        for p in paths:
            for e, g in walk_effects(p.effects):
                if e.kind == 'call' and isinstance(e.op, str) and e.op.endswith(':_mask'):
                    call = e
        if call is None:
            raise Inconclusive('mask: call of _mask not found')
        self.pub_call = call
        b = _bind(self.fi, call.args, call.kws)
        if b is None:
            raise Inconclusive('mask: cannot bind the arguments of _mask')
        self.bound = b
        self.role = {}     # public role name -> _mask parameter name
        self.role_problems = []
        pubnames = self.pub.params()
        for pname, val in b.items():
            if val[0] == 'P':
                self.role.setdefault(val[1], pname)
        # partial object: the parameter bound to None by mask()
        nones = [pname for pname, val in b.items() if val == NONE]
        pos = self.fi.params()[0]
        self.partial_param = nones[0] if len(nones) == 1 else None
        for need in ['sig', 'num_args', 'named_args'] + FLAGS:
            if need not in self.role:
                # fall back to the same-named parameter, and remember the problem
                if need in pos:
                    self.role_problems.append(need)
                    self.role[need] = need
                else:
                    raise Inconclusive('mask(): public parameter %s does not reach _mask' % need)
        if self.partial_param is None:
            if 'partial_obj' in pos:
                self.partial_param = 'partial_obj'
                self.role_problems.append('partial_obj')
            else:
                raise Inconclusive('_mask: partial-object parameter not identified')

    def role_term(self, role):
        return ('P', self.role[role])

    def partial_term(self):
        return ('P', self.partial_param)

    # -- pre-loop value of a loop-carried variable ------------------------------
    def resolve_after(self, t, path):
        """('V', name, lid, 'after') -> (pre-loop value, loop effect)"""
        if t[0] == 'V' and t[3] == 'after':
            for e in path.effects:
                if e.kind == 'loop' and e.ctx == t[2]:
                    for sp in e.sub:
                        vin = sp.env_in.get(t[1])
                        if vin is not None and vin[0] == 'V':
                            return vin[3], e
                    return None, e
        return t, None

    def is_empty_fresh(self, t):
        init = self.interp.obj_init.get(t)
        if t[0] in ('L', 'D', 'SET') and init is not None:
            if init[0] == 'T' and not init[1]:
                return True
            if init[0] == 'C' and not init[2] and not init[3]:
                return True
        return False


def flag_vals(model, p):
    """values of the four hide flags, num_args, partial mode on a path"""
    g = {}
    unknown = []
    inv = dict((v, k) for k, v in model.role.items())
    for atom, pol in p.lits:
        if atom[0] == 'truthy' and atom[1][0] == 'P' and atom[1][1] in inv and inv[atom[1][1]] in FLAGS + ['num_args']:
            g[inv[atom[1][1]]] = pol
        elif atom[0] == 'isnone' and atom[1] == model.partial_term():
            g['partial'] = not pol
        elif atom[0] == 'truthy' and atom[1] == model.partial_term():
            g['partial_truthy'] = pol
        elif atom[0] == 'truthy' and model.sides.bucket(atom[1]) is not None:
            b = model.sides.bucket(atom[1])
            g[('has', model.proto.kind_at(b[1]))] = pol
        elif atom[0] == 'broke':
            g['broke'] = pol
        elif atom[0] == 'truthy' and atom[1][0] == 'V' and len(atom[1]) > 3 and atom[1][3] == 'after' \
                and model.resolve_after(atom[1], p)[0] is not None and model.sides.bucket(model.resolve_after(atom[1], p)[0]) is not None:
            # a bucket variable tested after the loop over the names (which may have emptied it): "is there still one"
            b = model.sides.bucket(model.resolve_after(atom[1], p)[0])
            g[('has_after', model.proto.kind_at(b[1]))] = pol
        else:
            unknown.append((atom, pol))
    return g, unknown


def _completions(g, names):
    opts = [[g[n]] if g.get(n) is not None else [True, False] for n in names]
    for combo in itertools.product(*opts):
        yield dict(zip(names, combo))


def rule_mask_hide(check, model, rule, rule_src):
    """C03.R5 (hide flags only remove, coherently) and C08.R2 (removals are
    accompanied by the removal of the provenance entries) on every returning path"""
    proto = model.proto
    iPO, iPOK, iVP, iKWO, iVK = [proto.index_of_kind(k) for k in KINDS]
    n = 0
    seen = set()
    early_returns(check, model, rule, None)
    for p, items in model.ret_paths:
        g, unknown = flag_vals(model, p)
        gtext = lits_text([l for l in p.lits])
        fkeytxt = ','.join('%s=%s' % (k, g[k]) for k in FLAGS + ['num_args', 'partial'] if k in g)
        node = [e for e in p.effects if e.kind == 'return'][-1].node
        st = site(None, node)
        n += 1
        # resolve the five buckets to their pre-name-loop values
        pre = []
        loops = []
        for i in range(5):
            v, lp = model.resolve_after(items[i], p)
            pre.append(v)
            loops.append(lp)
        src_final = items[5]

        def cls(t, idx):
            if t is None:
                return 'unknown'
            if t == NONE:
                return 'none'
            if model.is_empty_fresh(t):
                return 'empty'
            if model.sides.bucket(t) == ('sig', idx):
                return 'kept'
            if t[0] == 'SL' and idx in (iPO, iPOK) and model.sides.bucket(t[1]) == ('sig', idx):
                return 'kept'       # what the positional consumption left of it (its bounds are C03.R3's business)
            b = model.sides.bucket(t)
            if b is not None:
                return 'bucket%d' % b[1]
            return 'unknown'
        got = [cls(pre[i], i) for i in range(5)]
        names = FLAGS
        problems = []
        unk = [x for x in got if x == 'unknown']
        for val in _completions(g, names):
            exp = [
                'empty' if val['hide_args'] else 'kept',
                'empty' if (val['hide_args'] or val['hide_kwargs']) else 'kept',
                'none' if (val['hide_args'] or val['hide_varargs']) else 'kept',
                'empty' if val['hide_kwargs'] else 'kept',
                'none' if (val['hide_kwargs'] or val['hide_varkwargs']) else 'kept',
            ]
            for i in range(5):
                if got[i] == 'unknown':
                    continue
                if got[i] != exp[i]:
                    # a star that is absent anyway may be passed as None/kept alike
                    if i in (iVP, iVK) and (g.get(('has', proto.kind_at(i))) is False or g.get(('has_after', proto.kind_at(i))) is False):
                        continue
                    flagtxt = ', '.join('%s=%s' % (k, v) for k, v in val.items() if v) or 'no hide flag'
                    problems.append((i, 'with %s the %s bucket is %s, expected %s' % (flagtxt, proto.kind_at(i), got[i], exp[i])))
        key = '_signatures:_mask|hide|%s' % fkeytxt
        if unk and not problems:
            # (a path whose effects conform conforms whatever its un-understood guards mean; only un-understood
            # *values* leave the verdict open)
            if key not in seen:
                check.inconclusive(rule, st, 'bucket values not understood on this path (%s)' %
                                   (', '.join('%s=%s' % (proto.kind_at(i), show(pre[i])[:60]) for i in range(5) if got[i] == 'unknown')
                                    or lits_text(unknown)), key=key)
        elif problems and not unknown:
            for i, msg in problems[:2]:
                check.violation(rule, st, msg, key=key + '|%d' % i, guards=gtext,
                                witness="mask(s('a, /, b, *args, c, **kwargs'), hide_varargs=True) must only drop *args")
        elif problems:
            check.inconclusive(rule, st, 'hide-flag path not decidable: guard not understood: ' + lits_text(unknown), key=key)
        else:
            check.holds(rule, st, 'buckets before the name loop are exactly those the hide flags leave', key=key, guards=gtext,
                        effect=', '.join('%s:%s' % (proto.kind_at(i), got[i]) for i in range(5)))
        seen.add(key)
        # ---- provenance removals (C08.R2)
        if rule_src is None:
            continue
        src0 = ('S', model.sr, K(5))
        dels = []
        for e in p.effects:
            if e.kind == 'mut' and e.target == src0 and e.op in ('pop', 'delitem') and e.args:
                dels.append(('one', e.args[0], e))
            elif e.kind == 'call' and isinstance(e.op, str) and e.op.endswith(':_remove_from_src') and len(e.args) == 2 and e.args[0] == src0:
                dels.append(('many', e.args[1], e))
            elif e.kind == 'loop' and not _is_name_loop(model, e) and e.sub:
                # `for p in <bucket>: src.pop(p.name, None)` removes the entries of everything the loop runs over
                el_ = ('E', e.target, e.ctx)
                if all(any(x.kind == 'mut' and x.target == src0 and x.op in ('pop', 'delitem') and x.args and x.args[0] == ('A', el_, 'name')
                           for x in sp.effects) for sp in e.sub if sp.status in ('continue', 'end', 'fall', 'next')) \
                        and any(x.kind == 'mut' and x.target == src0 for sp in e.sub for x in sp.effects):
                    dels.append(('many', e.target, e))
        key3 = '_signatures:_mask|srcdel|%s' % fkeytxt
        probs = []
        consumed = [d for d in dels if d[0] == 'many' and d[1][0] == 'SET']
        if not consumed:
            probs.append('the names consumed positionally are never removed from the provenance map')
        def _name_of(t, idx):
            # `<the star parameter of the input>.name`, also read through the variable the loop over the names carries it in
            if not (t[0] == 'A' and t[2] == 'name'):
                return False
            o = t[1]
            if o[0] == 'V' and len(o) > 3 and o[3] == 'after':
                o = model.resolve_after(o, p)[0]
            return o == ('S', model.sr, K(idx))
        for val in _completions(g, names):
            hv = g.get(('has_after', 'VP'), g.get(('has', 'VP')))
            hk = g.get(('has_after', 'VK'), g.get(('has', 'VK')))
            if (val['hide_args'] or val['hide_varargs']) and hv is not False:
                if not [d for d in dels if d[0] == 'one' and _name_of(d[1], iVP)]:
                    probs.append('*args hidden but its provenance entry stays')
            if (val['hide_kwargs'] or val['hide_varkwargs']) and hk is not False:
                if not [d for d in dels if d[0] == 'one' and _name_of(d[1], iVK)]:
                    probs.append('**kwargs hidden but its provenance entry stays')
            def _mentions_bucket(t, idx):
                for s_ in subterms(t):
                    r_ = model.resolve_after(s_, p)[0] if s_[0] == 'V' and len(s_) > 3 and s_[3] == 'after' else s_
                    if r_ is None:
                        continue
                    if model.sides.bucket(r_) == ('sig', idx) or (r_[0] == 'SL' and model.sides.bucket(r_[1]) == ('sig', idx)):
                        return True
                return False
            many = [d for d in dels if d[0] == 'many']
            if val['hide_args']:
                # removed from the map directly, or by way of the set of consumed names the map is purged of
                via_set = set()
                for e_ in p.effects:
                    if e_.kind == 'mut' and e_.target[0] == 'SET' and e_.op in ('update', 'add', 'ior') and e_.args:
                        for i_ in (iPO, iPOK):
                            if _mentions_bucket(e_.args[0], i_):
                                via_set.add(i_)
                for i_ in (iPO, iPOK):
                    if i_ not in via_set and not [d for d in many if _mentions_bucket(d[1], i_)]:
                        probs.append('hide_args removes the %s parameters but not their provenance entries' % proto.kind_at(i_))
            if val['hide_kwargs']:
                pokdel = [d for d in many if _mentions_bucket(d[1], iPOK)
                          or (d[1][0] == 'C' and d[1][2] and model.is_empty_fresh(d[1][2][0]))]
                kwodel = [d for d in many if model.sides.bucket(d[1]) == ('sig', iKWO)]
                if not pokdel and not val['hide_args']:
                    probs.append('hide_kwargs removes the positional-or-keyword parameters but not their provenance entries')
                if not kwodel:
                    probs.append('hide_kwargs removes the keyword-only parameters but not their provenance entries')
            if not (val['hide_args'] or val['hide_varargs']):
                # the *args entry must survive unless a named POK removes it (inside the name loop)
                if [d for d in dels if d[0] == 'one' and _name_of(d[1], iVP)]:
                    probs.append('the provenance entry of *args is removed although *args stays')
            if not (val['hide_kwargs'] or val['hide_varkwargs']):
                if [d for d in dels if d[0] == 'one' and _name_of(d[1], iVK)]:
                    probs.append('the provenance entry of **kwargs is removed although **kwargs stays')
        if probs and not unknown:
            for m in sorted(set(probs))[:2]:
                check.violation(rule_src, st, m, key=key3 + '|' + m[:40], guards=gtext,
                                witness="mask(s('a, *args, **kwargs'), hide_varargs=True).sources must not keep 'args'")
        elif probs:
            check.inconclusive(rule_src, st, 'provenance removals not decidable on this path: %s / unknown %s' % (sorted(set(probs)), lits_text(unknown)), key=key3)
        else:
            check.holds(rule_src, st, 'every bucket removal is paired with the removal of its provenance entries', key=key3, guards=gtext)
    check.floor(rule, 'returning paths of _mask', n, 40)


def _is_name_loop(model, e):
    t = e.target
    if t == model.role_term('named_args'):
        return True
    if model.is_empty_fresh(t):
        return True
    return False


def name_loops(model):
    """the loop over the named arguments, taken from the paths on which no hide
    flag has emptied the buckets (the table is about the general context)"""
    best = {}
    for p in model.paths:
        g, _ = flag_vals(model, p)
        score = sum(1 for k in FLAGS + ['num_args'] if g.get(k) is False)
        for e in p.effects:
            if e.kind == 'loop' and e.target == model.role_term('named_args'):
                # (one representative per value of the partial mode the surrounding path has settled: what is computed from
                # it before the loop -- `bound = named_args if partial_mode else {}` -- differs between them)
                bk = (e.ctx, g.get('partial'))
                cur = best.get(bk)
                if cur is None or score > cur[0]:
                    best[bk] = (score, e, p)
    return [(e, p) for score, e, p in best.values()]


def rule_mask_names(check, model, rules):
    """per-name decision table: rules keys table (C03.R1), index (C03.R2), kinds (C03.R4),
    src (C08.R2), pdefault (C10.R5)"""
    proto = model.proto
    iPO, iPOK, iVP, iKWO, iVK = [proto.index_of_kind(k) for k in KINDS]
    loops = name_loops(model)
    if not loops:
        raise Inconclusive('_mask: loop over the named arguments not found')
    named = model.role_term('named_args')
    src0 = ('S', model.sr, K(5))
    n = 0
    done = set()
    for loop, outer in loops:
        og, _ = flag_vals(model, outer)
        for sp in loop.sub:
            el = ('E', loop.target, loop.ctx)
            # identify loop-carried buckets by their pre-loop role
            carried = {}
            for name, vin in sp.env_in.items():
                if vin[0] == 'V':
                    init = vin[3]
                    b = model.sides.bucket(init) if isinstance(init, tuple) else None
                    if b is not None:
                        carried[b[1]] = (name, vin)
                    elif init == NONE:
                        carried.setdefault(iVP, (name, vin))
                    elif isinstance(init, tuple) and model.is_empty_fresh(init):
                        pass
            # objects
            g = {}
            if og.get('partial') is not None:
                g['partial'] = og['partial']
            unknown = []
            index_dicts = set()
            for atom, pol in sp.lits:
                k = atom[0]
                if k == 'in' and atom[1] == el:
                    c = atom[2]
                    role = _container_role(model, c, carried)
                    if role == 'in_reserved':
                        g['in_input_parameters'] = pol
                        continue
                    if role is None and c == ('A', model.role_term('sig'), 'parameters'):
                        # "is it a parameter name of the input at all": true of live names, of consumed ones, of
                        # positional-only ones and of the star parameters' own names -- a fact about the input which the
                        # other guards do not determine, so the row of the table is decided without it
                        g['in_input_parameters'] = pol
                    elif role is None:
                        unknown.append((atom, pol))
                    else:
                        g[role] = pol
                        if role == 'in_index':
                            index_dicts.add(c)
                elif k == 'isnone' and atom[1] == model.partial_term():
                    g['partial'] = not pol
                elif k == 'isnone' and atom[1][0] == 'S' and _is_bucket_element(model, atom[1], carried):
                    # an element of a parameter bucket is a Parameter, never None
                    if pol:
                        g['__infeasible__'] = True
                elif k == 'isnone' and atom[1] in (('S', named, el), ('M', named, 'get', (el,), ()), ('M', named, 'get', (el, NONE), ())):
                    # "the value bound to the name is None": a fact about the input (partial(f, a=None) is legal) which no
                    # other guard determines; the row of the table is decided without it
                    g['bound_value_is_none'] = pol
                elif k == 'isnone' and atom[1][0] == 'M' and atom[1][2] == 'get' and model.is_empty_fresh(atom[1][1]) \
                        and len(atom[1][3]) == 1:
                    # {}.get(name) is None
                    if not pol:
                        g['__infeasible__'] = True
                elif k == 'truthy':
                    t = atom[1]
                    b = model.sides.bucket(t)
                    if t[0] == 'V' and t[1] in [c[0] for c in carried.values()]:
                        idx = [i for i, c in carried.items() if c[0] == t[1]][0]
                        g[('has', proto.kind_at(idx))] = pol
                    elif b is not None:
                        g[('has', proto.kind_at(b[1]))] = pol
                    elif t[0] == 'M' and t[1] == el and t[2] == 'isidentifier':
                        # a name that cannot be the name of a parameter is absorbed without a parameter to display it
                        g['name_identifier'] = pol
                        if not pol:
                            g['in_input_parameters'] = True
                    elif t[0] == 'C' and isinstance(t[1], str) and t[1].endswith('iskeyword') and t[2] and t[2][0] == el:
                        g['name_keyword'] = pol
                        if pol:
                            g['in_input_parameters'] = True
                    elif t[0] == 'C' and t[1] == 'any' and mentions(t, el):
                        # "does a parameter that is left have this name" (D38/D58): a fact about the input, like `in sig.parameters`
                        g['in_input_parameters'] = pol
                    elif t == model.partial_term():
                        g['partial'] = pol
                    elif t[0] == 'SL' and t[1][0] == 'V' and t[1][1] in [c[0] for c in carried.values()]:
                        # "are there parameters before / after the named one": a fact about the input that can go either way
                        # whatever the other guards say; the table does not depend on it
                        g[('slice_nonempty', 'tail' if t[3] == NONE else 'head')] = pol
                    else:
                        unknown.append((atom, pol))
                else:
                    unknown.append((atom, pol))
            if g.pop('__infeasible__', False):
                continue
            gtext = lits_text(sp.lits)
            ctx = ','.join('%s=%s' % (k, og[k]) for k in FLAGS if k in og)
            gk = ','.join('%s%s' % ('' if v else '!', k if isinstance(k, str) else '.'.join(k)) for k, v in sorted(g.items(), key=str))
            key = '_signatures:_mask|name|%s' % gk
            if key in done:
                continue
            done.add(key)
            n += 1
            node = None
            for e, _g in walk_effects(sp.effects):
                if e.node is not None:
                    node = e.node
                    break
            st = site(None, node or loop.node)
            if unknown:
                for r in set(x for x in rules.values() if x):
                    check.inconclusive(r, st, 'per-name path: guard not understood: ' + lits_text(unknown), key=key)
                continue
            raises = [e for e in sp.effects if e.kind == 'raise']
            exc = model.interp._exc_name(raises[0].target) if raises else None
            adds = [e for e in sp.effects if e.kind == 'mut' and e.op == 'add' and e.args and e.args[0] == el
                    and _container_role(model, e.target, carried) == 'in_consumed']
            cons, idx_, kw, hk, part = g.get('in_consumed'), g.get('in_index'), g.get('in_kwo'), g.get(('has', 'VK')), g.get('partial')
            # effects on the carried buckets
            pok_name = carried.get(iPOK, (None, None))[0]
            pok_in = carried.get(iPOK, (None, None))[1]
            vp_name = carried.get(iVP, (None, None))[0]
            pok_out = sp.env_out.get(pok_name) if pok_name else None
            vp_out = sp.env_out.get(vp_name) if vp_name else None
            vp_in = carried.get(iVP, (None, None))[1]
            kwo_objs = set([('S', model.sr, K(iKWO))])
            kwo_puts = [e for e in sp.effects if e.kind == 'mut' and e.op in ('setitem', 'update') and
                        (e.target in kwo_objs or (model.is_empty_fresh(e.target) and e.target[0] == 'D'))]
            kwo_pops = [e for e in sp.effects if e.kind == 'mut' and e.op in ('pop', 'delitem') and e.target in kwo_objs]
            src_pops = [e for e in sp.effects if e.kind == 'mut' and e.op in ('pop', 'delitem') and e.target == src0]
            src_sets = [e for e in sp.effects if e.kind == 'mut' and e.op == 'setitem' and e.target == src0]
            msgs = []    # (category, text)

            def add(cat, text):
                msgs.append((cat, text))
                if cat == 'table' and ', partial"' in text:
                    # "keywords bound by a partial appear as keyword-only parameters whose default is the bound value" (C10)
                    # is about these rows of the table too, not only about the default's value
                    msgs.append(('pdefault', text))

            # which rows can this path be in?
            rows = []
            posonly_to_vk = g.get('in_posonly') is True and hk is not False
            for c_ in ([cons] if cons is not None else [True, False]):
                if c_ and not posonly_to_vk:
                    rows.append('dup')
                    continue
                # (D58) a keyword named like a consumed positional-only parameter cannot reach it: with **kwargs it is absorbed
                for i_ in ([idx_] if idx_ is not None else [True, False]):
                    if i_:
                        rows.append('pok')
                        continue
                    for k_ in ([kw] if kw is not None else [True, False]):
                        if k_:
                            rows.append('kwo')
                            continue
                        for h_ in ([hk] if hk is not None else [True, False]):
                            rows.append('absorb' if h_ else 'notfound')
            rows = sorted(set(rows))
            if rules.get('posonly') and raises and cons is True and g.get('in_posonly') is None and hk is not False:
                # (D58) the duplicate is reported without asking whether the consumed parameter can be reached by keyword at all
                add('posonly', 'row "name already consumed": raises ValueError whatever kind the consumed parameter has -- a keyword named like a '
                               'consumed positional-only parameter cannot reach it and goes to **kwargs, which is a valid call')
            for row in rows:
                if row in ('dup', 'notfound'):
                    if not raises:
                        add('table', 'row "%s": must raise ValueError but continues' % ('name already consumed' if row == 'dup' else
                                                                                      'name not found and no **kwargs'))
                    continue
                if raises:
                    add('table', 'row "%s": raises %s although the name can be passed' % (row, exc))
                    continue
                if not adds:
                    add('table', 'row "%s": the name is not recorded as consumed (a duplicate would be accepted)' % row)
                parts = [part] if part is not None else [True, False]
                if row == 'pok':
                    _row_pok(model, sp, el, carried, pok_in, pok_out, vp_in, vp_out, vp_name, kwo_puts, src_pops, named, parts, g, add,
                             index_dicts)
                elif row == 'kwo':
                    for pm in parts:
                        if pm:
                            reps = [e for e in kwo_puts if e.op == 'setitem' and e.args[0] == el]
                            if not reps:
                                add('table', 'row "keyword-only, partial": the parameter does not get the bound value as default')
                            for e in reps:
                                v = e.args[1]
                                built = _built_parameter(sp, v)
                                if built is not None:
                                    if built['name'] != el:
                                        add('table', 'row "keyword-only, partial": replaced by a parameter named %s' % show(built['name'])[:40])
                                    if kind_of_attr_term(built['kind']) != 'KWO':
                                        add('kinds', 'row "keyword-only, partial": kind changed to %s' % kind_of_attr_term(built['kind']))
                                    if not _bound_value(built['default'], named, (el,)):
                                        add('pdefault', 'row "keyword-only, partial": default is %s, not the value bound to that name'
                                            % show(built['default'])[:60])
                                    continue
                                if not (v[0] == 'M' and v[2] == 'replace'):
                                    add('unknown', 'replacement value %s' % show(v)[:80])
                                    continue
                                kws = dict(v[4])
                                if v[1] != ('S', e.target, el):
                                    add('table', 'row "keyword-only, partial": replaced by a different parameter (%s)' % show(v[1])[:60])
                                if 'kind' in kws and kind_of_attr_term(kws['kind']) != 'KWO':
                                    add('kinds', 'row "keyword-only, partial": kind changed to %s' % kind_of_attr_term(kws['kind']))
                                if not _bound_value(kws.get('default'), named, (el,)):
                                    add('pdefault', 'row "keyword-only, partial": default is %s, not the value bound to that name'
                                        % show(kws.get('default'))[:60])
                            if kwo_pops:
                                add('table', 'row "keyword-only, partial": the parameter is removed')
                            if [e for e in src_pops if e.args[0] == el]:
                                add('src', 'row "keyword-only, partial": provenance removed for a parameter that stays')
                        else:
                            if not [e for e in kwo_pops if e.args[0] == el]:
                                add('table', 'row "keyword-only": the named parameter is not removed')
                            if not [e for e in src_pops if e.args[0] == el]:
                                add('src', 'row "keyword-only": parameter removed but its provenance entry stays')
                elif row == 'absorb':
                    for pm in parts:
                        if pm and g.get('in_input_parameters') is True:
                            # the name is that of a positional-only or star parameter of the input: it is absorbed by **kwargs, and a
                            # parameter of that name cannot be added to the signature (D38)
                            if kwo_puts or kwo_pops:
                                add('table', 'row "absorbed by **kwargs, partial, name of another parameter": a parameter is created or removed '
                                             'although one of that name exists')
                            if src_sets or src_pops:
                                add('src', 'row "absorbed by **kwargs, partial, name of another parameter": the provenance entry of the existing '
                                           'parameter of that name is overwritten or removed')
                        elif pm:
                            news = [e for e in kwo_puts if e.op == 'setitem' and e.args[0] == el]
                            if not news:
                                add('table', 'row "absorbed by **kwargs, partial": no keyword-only parameter is created for the bound keyword')
                            elif g.get('name_identifier') is not True or g.get('name_keyword') is not False:
                                # (D38b) any string can be a key of a partial's keywords: `partial(tag, **{'class': 'row'})`
                                add('table', 'row "absorbed by **kwargs, partial": a keyword-only parameter is created without testing that the name can be '
                                             'the name of a parameter (an identifier that is not a reserved word): inspect.Parameter raises ValueError for '
                                             'a partial object that is callable')
                            elif g.get('in_input_parameters') is None:
                                add('table', 'row "absorbed by **kwargs, partial": a keyword-only parameter is created without testing that the input '
                                             'has no parameter of that name (a positional-only or star parameter): the result has two parameters of one '
                                             'name and its construction raises ValueError')
                            for e in news:
                                v = e.args[1]
                                ce = None
                                for x in sp.effects:
                                    if x.kind == 'call' and x.result == v:
                                        ce = x
                                if ce is None or not str(ce.op).endswith('UpgradedParameter'):
                                    add('unknown', 'created value %s' % show(v)[:80])
                                    continue
                                kws = dict(ce.kws)
                                a = list(ce.args)
                                nm = a[0] if a else kws.get('name')
                                kd = a[1] if len(a) > 1 else kws.get('kind')
                                if nm != el:
                                    add('table', 'row "absorbed, partial": created parameter is not named after the bound keyword')
                                kk = kind_of_attr_term(kd)
                                if kk != 'KWO':
                                    add('kinds', 'row "absorbed, partial": created parameter has kind %s' % kk)
                                if not _bound_value(kws.get('default'), named, (el,)):
                                    add('pdefault', 'row "absorbed, partial": default is %s, not the value bound to that name'
                                        % show(kws.get('default'))[:60])
                            srcs = [e for e in src_sets if e.args[0] == el]
                            if not srcs:
                                add('src', 'row "absorbed, partial": created parameter gets no provenance entry')
                            for e in srcs:
                                init = model.interp.obj_init.get(e.args[1])
                                if not (init is not None and init[0] == 'T' and init[1] == (model.partial_term(),)):
                                    add('src', 'row "absorbed, partial": created parameter is not sourced to the partial object (%s)'
                                        % show(init if init else e.args[1])[:60])
                        else:
                            if kwo_puts or kwo_pops:
                                add('table', 'row "absorbed by **kwargs": the signature is changed although the name is simply absorbed')
                            if src_sets:
                                add('src', 'row "absorbed by **kwargs": a provenance entry is written although no parameter is created')
                            if src_pops:
                                add('src', 'row "absorbed by **kwargs": a provenance entry is removed although no parameter leaves the '
                                           'signature: a positional-only parameter (or the star parameter) of that name keeps no entry')
            unk = [m for c, m in msgs if c == 'unknown']
            for cat, rid in rules.items():
                if rid is None:
                    continue
                mine = sorted(set(m for c, m in msgs if c == cat))
                if unk:
                    check.inconclusive(rid, st, 'per-name path not decidable: ' + '; '.join(unk), key=key)
                elif mine:
                    for m in mine[:3]:
                        check.violation(rid, st, m, key=key + '|' + m[:50], guards=gtext, witness=_WIT.get(cat))
                else:
                    check.holds(rid, st, 'per-name path conforms to the %s column (rows %s)' % (cat, '/'.join(rows)), key=key, guards=gtext)
    check.floor(rules.get('table') or [x for x in rules.values() if x][0], 'per-name decision paths of _mask', n, 8)


_WIT = {
    'posonly': "def f(a, /, **kwargs): ...; signatures.signature(functools.partial(f, 1, a=2)) must be (*, a=2, **kwargs), not ValueError",
    'table': "mask(s('a'), 0, 'zz') must raise; mask(s('a, b, *args'), 0, 'a') must be (*, b)",
    'index': "mask(s('b, a, *args, **kwargs'), 0, 'a', 'b') must equal mask(..., 0, 'b', 'a')",
    'kinds': "mask(s('a, b'), 0, 'a') must be (*, b)",
    'src': "mask(s('a, b'), 0, 'a').sources must not keep 'a'",
    'pdefault': "signature(partial(f, b=2)) must show b=2",
}


def _bound_value(v, named, keys):
    """v is the value bound to the current name: named[k] or, the name being one of named's keys, named.get(k)"""
    for k in keys:
        if v in (('S', named, k), ('M', named, 'get', (k,), ())):
            return True
    return False


def _built_parameter(sp, v):
    """v = a fresh UpgradedParameter(...) built on this path -> dict(name, kind, default), else None"""
    if not (isinstance(v, tuple) and v and v[0] == 'O' and str(v[1]).endswith('UpgradedParameter')):
        return None
    for x, _g in walk_effects(sp.effects):
        if x.kind == 'call' and x.result == v:
            kws = dict(x.kws)
            a = list(x.args)
            return {'name': a[0] if a else kws.get('name'), 'kind': a[1] if len(a) > 1 else kws.get('kind'),
                    'default': a[2] if len(a) > 2 else kws.get('default')}
    return None


def _is_bucket_element(model, t, carried):
    """t = <bucket>[...] for one of the classified buckets (directly or through its loop-carried variable)"""
    base = t[1]
    if base[0] == 'V' and isinstance(base[3], tuple):
        base = base[3]
    b = model.sides.bucket(base)
    return b is not None and b[1] in (0, 1, 3)


def _container_role(model, c, carried):
    """role of the container a name is looked up in"""
    proto = model.proto
    iPOK, iKWO = proto.index_of_kind('POK'), proto.index_of_kind('KWO')
    if c[0] == 'V':
        init = c[3]
        if isinstance(init, tuple):
            return _container_role(model, init, carried)
        return None
    if c[0] == 'SET':
        init = model.interp.obj_init.get(c)
        if init is not None and not model.is_empty_fresh(c) and any(
                isinstance(s_, tuple) and s_ and s_[0] == 'C' and isinstance(s_[1], str) and s_[1].endswith(':_pnames') for s_ in subterms(init)):
            # set(_pnames(<what is left of the positional-only bucket>)), later joined by the star names: the names a keyword absorbed
            # by **kwargs cannot be displayed under -- a fact about the input like `in sig.parameters`
            return 'in_reserved'
        if init is not None and not model.is_empty_fresh(c):
            # set(p.name for p in <PO bucket>): the names of the positional-only parameters of the input (D58)
            iPO = proto.index_of_kind('PO')
            for s in subterms(init):
                if s[0] == 'G' and len(s[3]) == 1:
                    src = s[3][0][0]
                    if model.sides.bucket(src) == ('sig', iPO):
                        return 'in_posonly'
        return 'in_consumed'
    if model.sides.bucket(c) == ('sig', iKWO):
        return 'in_kwo'
    if c[0] == 'D':
        init = model.interp.obj_init.get(c)
        if model.is_empty_fresh(c):
            return 'in_kwo'      # the emptied keyword-only map under hide_kwargs
        if init is not None:
            # dict((p.name, p) for p in <POK bucket>)
            for s in subterms(init):
                if s[0] == 'G' and len(s[3]) == 1:
                    src = s[3][0][0]
                    if src[0] == 'C' and src[1] == 'enumerate' and len(src[2]) == 1:
                        # positional flavour: dict((p.name, i) for i, p in enumerate(<POK bucket>)); its validity over
                        # time is the business of rules_derived.rule_positional_index
                        src = src[2][0]
                    b = model.sides.bucket(src)
                    if b == ('sig', iPOK) or (src[0] == 'V' and isinstance(src[3], tuple) and model.sides.bucket(src[3]) == ('sig', iPOK)) \
                            or (src[0] == 'SL' and _slice_base_role(model, src) == iPOK):
                        return 'in_index'
    return None


def _slice_base_role(model, t):
    while t[0] == 'SL':
        t = t[1]
    if t[0] == 'V' and isinstance(t[3], tuple):
        t = t[3]
    b = model.sides.bucket(t)
    return b[1] if b else None


def _row_pok(model, sp, el, carried, pok_in, pok_out, vp_in, vp_out, vp_name, kwo_puts, src_pops, named, parts, g, add, index_dicts):
    proto = model.proto
    iVP = proto.index_of_kind('VP')
    if pok_in is None:
        add('unknown', 'positional-or-keyword bucket is not loop-carried')
        return
    # split:  head = pok[:i], param = pok[i], tail = pok[i+1:]  with i = pok.index(index[name])
    if pok_out is None or pok_out == pok_in:
        add('table', 'row "names a positional-or-keyword parameter": the parameter list is not split at it')
        return
    if not (pok_out[0] == 'SL' and pok_out[1] == pok_in):
        add('unknown', 'new positional-or-keyword list %s' % show(pok_out)[:80])
        return
    lo, hi = pok_out[2], pok_out[3]
    i = hi
    ok_i = i[0] == 'M' and i[1] == pok_in and i[2] == 'index' and len(i[3]) == 1 and i[3][0][0] == 'S' and i[3][0][2] == el \
        and i[3][0][1] in index_dicts
    if not ok_i and i[0] == 'S' and i[2] == el and i[1] in index_dicts:
        ok_i = True     # positional index: the recorded position itself
    if lo != NONE:
        add('table', 'row "names a positional-or-keyword parameter": head of the split does not start at the first parameter')
    if not ok_i:
        if i[0] == 'B' and i[1] in ('Add', 'Sub') and i[2][0] == 'M':
            add('table', 'row "names a positional-or-keyword parameter": the list is cut at index %s: the named parameter stays/too many leave'
                % show(i)[:60])
        else:
            add('unknown', 'split index %s' % show(i)[:80])
        return
    param = ('S', pok_in, i)
    tail = ('SL', pok_in, ('B', 'Add', i, K(1)), NONE)
    # tail -> keyword-only
    ups = [e for e in kwo_puts if e.op == 'update']
    tail_ok = False
    for e in ups:
        a = e.args[0] if e.args else None
        if a is not None and a[0] == 'G' and len(a[3]) == 1:
            srcit = a[3][0][0]
            elt = a[2]
            x = ('E', srcit, a[3][0][2])
            if srcit == tail:
                if elt[0] == 'T' and len(elt[1]) == 2 and elt[1][0] == ('A', x, 'name'):
                    v = elt[1][1]
                    if v[0] == 'M' and v[2] == 'replace' and v[1] == x:
                        kws = dict(v[4])
                        kk = kind_of_attr_term(kws.get('kind'))
                        if kk != 'KWO':
                            add('kinds', 'row "names a positional-or-keyword parameter": the parameters after it become %s' % kk)
                        if 'default' in kws or 'name' in kws:
                            add('table', 'row "names a positional-or-keyword parameter": tail parameters are altered beyond their kind')
                        tail_ok = True
                    elif v == x:
                        add('kinds', 'row "names a positional-or-keyword parameter": the parameters after it stay positional-or-keyword '
                                     'inside the keyword-only map')
                        tail_ok = True
            elif srcit[0] == 'SL' and srcit[1] == pok_in:
                add('table', 'row "names a positional-or-keyword parameter": the keyword-only tail is %s instead of everything after the '
                             'named parameter' % show(srcit)[:80])
                tail_ok = True
    if not tail_ok:
        add('table', 'row "names a positional-or-keyword parameter": the parameters after it are not moved to keyword-only')
    for pm in parts:
        sets = [e for e in kwo_puts if e.op == 'setitem']
        if pm:
            mine = [e for e in sets if e.args[0] == ('A', param, 'name') or e.args[0] == el]
            if not mine:
                add('table', 'row "names a positional-or-keyword parameter, partial": the parameter does not stay as keyword-only')
            for e in mine:
                v = e.args[1]
                built = _built_parameter(sp, v)
                if built is not None:
                    # rebuilt with the constructor instead of param.replace(): name, kind and default are what this table is about
                    # (what else the rebuilt parameter keeps -- annotations, provenance -- is C11.R2 / C08's business)
                    if built['name'] not in (('A', param, 'name'), el):
                        add('table', 'row "names a positional-or-keyword parameter, partial": the parameter kept is named %s' % show(built['name'])[:40])
                    if kind_of_attr_term(built['kind']) != 'KWO':
                        add('kinds', 'row "names a positional-or-keyword parameter, partial": kept with kind %s' % kind_of_attr_term(built['kind']))
                    if not _bound_value(built['default'], named, (('A', param, 'name'), el)):
                        add('pdefault', 'row "names a positional-or-keyword parameter, partial": default is %s, not the bound value'
                            % show(built['default'])[:60])
                elif v[0] == 'M' and v[2] == 'replace' and v[1] == param:
                    kws = dict(v[4])
                    if kind_of_attr_term(kws.get('kind')) != 'KWO':
                        add('kinds', 'row "names a positional-or-keyword parameter, partial": kept with kind %s' % kind_of_attr_term(kws.get('kind')))
                    d = kws.get('default')
                    if not _bound_value(d, named, (('A', param, 'name'), el)):
                        add('pdefault', 'row "names a positional-or-keyword parameter, partial": default is %s, not the bound value'
                            % show(d)[:60])
                else:
                    add('unknown', 'kept value %s' % show(v)[:60])
            if [e for e in src_pops if e.args[0] == el]:
                add('src', 'row "names a positional-or-keyword parameter, partial": provenance removed for a parameter that stays')
        else:
            if [e for e in sets if e.args[0] in (('A', param, 'name'), el)]:
                add('table', 'row "names a positional-or-keyword parameter": the named parameter stays in the signature')
            if not [e for e in src_pops if e.args[0] in (el, ('A', param, 'name'))]:
                add('src', 'row "names a positional-or-keyword parameter": parameter removed but its provenance entry stays')
    # *args leaves together with its provenance
    hv = g.get(('has', 'VP'))
    if vp_in is not None:
        for h in ([hv] if hv is not None else [True, False]):
            if h:
                if vp_out != NONE:
                    add('table', 'row "names a positional-or-keyword parameter": *args stays although a positional would now bind the '
                                 'named parameter twice')
                if not [e for e in src_pops if e.args[0] == ('A', vp_in, 'name')]:
                    add('src', 'row "names a positional-or-keyword parameter": *args removed but its provenance entry stays')
            else:
                if vp_out not in (NONE, vp_in, None):
                    add('unknown', '*args becomes %s' % show(vp_out)[:60])
    elif hv is not False:
        add('table', 'row "names a positional-or-keyword parameter": *args stays although a positional would now bind the '
                     'named parameter twice (the *args bucket is never changed inside the name loop)')
    # index coherence (C03.R2): the name index must follow the new list
    for d in index_dicts:
        cleared = [e for e in sp.effects if e.kind == 'mut' and e.target == d and e.op == 'clear']
        if cleared:
            add('index', 'the name index is emptied although the parameters before the named one stay positional-or-keyword: '
                         'a later name among them is no longer found (result depends on the order of the names)')
    rebound = None
    for name, vin in sp.env_in.items():
        if vin[0] == 'V' and isinstance(vin[3], tuple) and vin[3] in index_dicts or vin in index_dicts:
            rebound = sp.env_out.get(name)
            if rebound is not None and rebound != vin:
                ok = False
                init = model.interp.obj_init.get(rebound)
                if init is not None:
                    for s in subterms(init):
                        if s[0] == 'G' and len(s[3]) == 1 and (s[3][0][0] == pok_out or s[3][0][0] == ('C', 'enumerate', (pok_out,), ())):
                            ok = True
                if not ok:
                    add('index', 'the name index is rebuilt from %s, not from the new parameter list' % show(init if init else rebound)[:80])
    if rebound is None:
        # not rebound: acceptable only if the removed names are deleted from it -- the named parameter *and* the
        # parameters after it, which left the positional-or-keyword list together with it
        muts = [e for d in index_dicts for e, _g in walk_effects(sp.effects) if e.kind == 'mut' and e.target == d]
        if not muts:
            add('index', 'the name index still lists the parameters that were converted to keyword-only or removed: '
                         'naming one of them again is not diagnosed / is looked up in a stale list')
        else:
            single = [e for e in muts if e.op in ('delitem', 'pop') and e.args and e.args[0] in (el, ('A', param, 'name'))]
            if len(single) == len(muts):
                add('index', 'only the named parameter is deleted from the name index; the parameters after it, which became keyword-only, '
                             'are still listed: naming one of them later is looked up in the shortened list (ValueError: not in list)')


def rule_mask_consume(check, model, rule):
    """C03.R3: positional consumption -- order PO then POK, trip count num_args, exhaustion raises unless *args"""
    proto = model.proto
    iPO, iPOK, iVP = proto.index_of_kind('PO'), proto.index_of_kind('POK'), proto.index_of_kind('VP')
    num = model.role_term('num_args')
    n = 0
    seen = set()
    for p in model.paths:
        g, unknown = flag_vals(model, p)
        for e in p.effects:
            if e.kind != 'loop' or e.ctx in seen or _is_name_loop(model, e):
                continue
            t = e.target
            if not (t[0] == 'C' and isinstance(t[1], str) and t[1].endswith(':_pop_chain')):
                continue
            seen.add(e.ctx)
            n += 1
            st = site(None, e.node)
            key = '_signatures:_mask|consume'
            bs = [model.sides.bucket(a) for a in t[2]]
            if bs == [('sig', iPO), ('sig', iPOK)]:
                check.holds(rule, st, 'positionals are consumed from the positional-only then the positional-or-keyword parameters', key=key + '|order')
            elif set(bs) == set([('sig', iPO), ('sig', iPOK)]):
                check.violation(rule, st, 'positional-or-keyword parameters are consumed before positional-only ones', key=key + '|order',
                                witness="mask(s('a, /, b'), 1) must be (b)")
            else:
                check.violation(rule, st, 'consumption draws from %s' % [show(a) for a in t[2]], key=key + '|order',
                                witness="mask(s('a, /, b'), 2) must be ()")
            # (whether hide_args may gate the count check at all is C03.R6's business: it may not)
            from .rules_classes import dominated_by
            numtxt = model.role['num_args']
            if not dominated_by(model.fi, e.node, lambda test, pol: pol and norm(test) in (numtxt, '%s > 0' % numtxt, '%s != 0' % numtxt, '%s >= 1' % numtxt)):
                check.violation(rule, st, 'the consuming loop is not guarded by "num_args"', key=key + '|guard',
                                guards=lits_text(p.lits))
            # induction variable
            el = ('E', t, e.ctx)
            counters = [(name, vin) for name, vin in e.sub[0].env_in.items() if vin[0] == 'V' and vin[3] == num] if e.sub else []
            if len(counters) != 1:
                check.inconclusive(rule, st, 'trip counter initialised from num_args not found', key=key + '|counter')
                continue
            cname, cin = counters[0]
            breaks = [sp for sp in e.sub if sp.status == 'break']
            conts = [sp for sp in e.sub if sp.status == 'continue']
            if not breaks:
                check.violation(rule, st, 'the consuming loop never stops early: every positional parameter is consumed', key=key + '|exit',
                                witness="mask(s('a, b, c'), 1) must be (b, c)")
                continue
            good = True
            for sp in e.sub:
                cout = sp.env_out.get(cname)
                dec = ('B', 'Sub', cin, K(1))
                if cout != dec:
                    good = False
                    check.violation(rule, st, 'the trip counter is updated to %s per consumed parameter, expected exactly one decrement'
                                    % show(cout)[:60], key=key + '|step', witness="mask(s('a, b, c'), 1) must be (b, c)")
                lits = dict(sp.lits)
                tested_post = lits.get(('truthy', dec))
                tested_pre = lits.get(('truthy', cin))
                if sp.status == 'break':
                    if tested_post is False:
                        pass
                    elif tested_pre is False:
                        good = False
                        check.violation(rule, st, 'the exit test reads the counter before the decrement: one parameter too many is consumed',
                                        key=key + '|test', witness="mask(s('a, b, c'), 1) must be (b, c)")
                    else:
                        good = False
                        check.inconclusive(rule, st, 'exit test of the consuming loop not understood: ' + lits_text(sp.lits), key=key + '|test')
                adds = [x for x in sp.effects if x.kind == 'mut' and x.op == 'add' and x.args and x.args[0] == ('A', el, 'name')]
                if not adds:
                    good = False
                    check.violation(rule, st, 'a consumed parameter is not recorded as consumed (its provenance stays, naming it again is accepted)',
                                    key=key + '|record', witness="mask(s('a, b'), 1, 'a') must raise")
            if good:
                check.holds(rule, st, 'trip count is num_args: one decrement per popped parameter, exit when the counter reaches zero',
                            key=key + '|count')
    if n == 0:
        # second idiom: consumption by slicing,  PO' = PO[n:],  POK' = POK[max(0, n - len(PO)):]
        done = _consume_by_slices(check, model, rule)
        if done:
            return
    check.floor(rule, 'consuming loops', n, 1)
    # exhaustion exit
    n2 = 0
    ok_raise = False
    for p in model.paths:
        g, unknown = flag_vals(model, p)
        if g.get('broke') is False:
            n2 += 1
            hv = g.get(('has', 'VP'))
            raises = p.status == 'raise'
            key = '_signatures:_mask|exhausted|has_varargs=%s' % hv
            if key in seen:
                continue
            seen.add(key)
            node = [e for e in p.effects if e.kind in ('raise', 'return')][-1].node
            if hv is False and not raises:
                check.violation(rule, site(None, node), 'more positionals than parameters and no *args, yet no ValueError', key=key,
                                guards=lits_text(p.lits), witness="mask(s('a'), 2) must raise")
            elif hv is None and not raises:
                check.violation(rule, site(None, node), 'running out of parameters is accepted without testing for *args', key=key,
                                guards=lits_text(p.lits), witness="mask(s('a'), 2) must raise")
            elif hv is True and raises and _raise_in_prefix(p):
                check.violation(rule, site(None, node), 'raises although *args absorbs the surplus positionals', key=key,
                                guards=lits_text(p.lits), witness="mask(s('a, *args'), 3) must be (*args)")
            else:
                check.holds(rule, site(None, node), 'exhaustion exit: raises exactly when there is no *args', key=key, guards=lits_text(p.lits))
    check.floor(rule, 'exhaustion exits', n2, 2)
    # _pop_chain contract
    fi = check.repo.func(SIG + ':_pop_chain')
    check.analysed(fi)
    it = Interp(check.repo, Policy())
    ps = it.run(fi)
    check.absorb(it)
    ys = []
    for p in ps:
        for e, gg in walk_effects(p.effects):
            if e.kind == 'yield':
                ys.append(e)
    key = '_signatures:_pop_chain|contract'
    st = site(None, fi.node)
    if len(ys) == 1 and ys[0].target[0] == 'M' and ys[0].target[2] == 'pop' and ys[0].target[3] == (K(0),):
        seq = ys[0].target[1]
        if seq[0] == 'E' and seq[1] == ('P', fi.node.args.vararg.arg if fi.node.args.vararg else '?'):
            check.holds(rule, st, '_pop_chain pops from the front of each sequence, sequences in argument order', key=key)
        else:
            check.inconclusive(rule, st, '_pop_chain iterates %s' % show(seq)[:80], key=key)
    elif len(ys) == 1 and ys[0].target[0] == 'M' and ys[0].target[2] == 'pop':
        check.violation(rule, st, '_pop_chain pops %s instead of the first element' % show(ys[0].target)[:60], key=key,
                        witness="mask(s('a, b'), 1) must be (b)")
    else:
        check.inconclusive(rule, st, '_pop_chain not understood', key=key)


def _consume_by_slices(check, model, rule):
    proto = model.proto
    iPO, iPOK, iVP = proto.index_of_kind('PO'), proto.index_of_kind('POK'), proto.index_of_kind('VP')
    num = model.role_term('num_args')
    PO, POK = ('S', model.sr, K(iPO)), ('S', model.sr, K(iPOK))
    judged = False
    seen = set()
    for p, items in model.ret_paths:
        g, unknown = flag_vals(model, p)
        if g.get('hide_args') is not False or g.get('num_args') is not True or g.get('hide_kwargs') is True:
            continue
        po = items[iPO]
        pok, _lp = model.resolve_after(items[iPOK], p)
        key = '_signatures:_mask|consume-slices'
        if key in seen:
            continue
        node = [e for e in p.effects if e.kind == 'return'][-1].node
        st = site(None, node)
        if not (po[0] == 'SL' and po[1] == PO and pok is not None and pok[0] == 'SL' and pok[1] == POK):
            return False
        seen.add(key)
        judged = True
        msgs = []
        # what is recorded as consumed must be the names of exactly what is cut off: PO[:num_args] and POK[:max(0, num_args - len(PO))].
        # An unclamped upper bound is negative when fewer arguments are passed than there are positional-only parameters, and a
        # negative bound counts from the end: regular parameters that stay are then recorded as consumed (naming them raises
        # "Duplicate argument", their provenance is dropped)
        for e in p.effects:
            if not (e.kind == 'mut' and e.op in ('update', 'add') and e.target[0] == 'SET'):
                continue
            for a_ in e.args:
                for s_ in subterms(a_):
                    if s_[0] == 'SL' and s_[1] == POK and s_[2] == NONE:
                        hi = s_[3]
                        clamped = hi[0] == 'C' and hi[1] == 'max' and K(0) in hi[2]
                        guarded = False
                        want_len = ('C', 'len', (PO,), ())
                        for atom, pol in p.lits:
                            if atom[0] == 'cmp' and set([atom[2], atom[3]]) == set([num, want_len]):
                                if (atom[1] == '<=' and atom[2] == want_len and atom[3] == num and pol) or \
                                        (atom[1] == '<' and atom[2] == num and atom[3] == want_len and not pol) or \
                                        (atom[1] == '<' and atom[2] == want_len and atom[3] == num and pol):
                                    guarded = True
                        if not clamped and not guarded and hi[0] == 'B' and hi[1] == 'Sub':
                            check.violation(rule, site(None, e.node), 'the names recorded as consumed are those of %s, whose upper bound is negative when fewer '
                                            'arguments are passed than there are positional-only parameters: regular parameters that stay are recorded '
                                            'as consumed' % show(s_)[:70], key=key + '|record',
                                            witness="signature(partial(f, 1, c=3)) for def f(a, b, /, c, d) raises Duplicate argument: 'c'")
        if po[2] != num or po[3] != NONE:
            msgs.append('positional-only parameters are cut as %s, expected [num_args:]' % show(po)[:60])
        lo = pok[2]
        want_len = ('C', 'len', (PO,), ())
        ok = lo[0] == 'C' and lo[1] == 'max' and len(lo[2]) == 2 and K(0) in lo[2]
        inner = None
        if ok:
            inner = [x for x in lo[2] if x != K(0)][0]
            ok = inner[0] == 'B' and inner[1] == 'Sub' and inner[2] == num
        if not ok and pok[3] == NONE and lo[0] == 'B' and lo[1] == 'Sub' and lo[2] == num and lo[3] == want_len:
            # un-clamped difference: negative whenever fewer arguments are passed than there are positional-only
            # parameters, unless the path is dominated by a comparison that excludes it
            guarded = False
            for atom, pol in p.lits:
                if atom[0] == 'cmp' and set([atom[2], atom[3]]) == set([num, want_len]):
                    # normal forms: (a < b), (a <= b); we need  len(PO) <= num
                    if atom[1] == '<=' and atom[2] == want_len and atom[3] == num and pol:
                        guarded = True
                    if atom[1] == '<' and atom[2] == num and atom[3] == want_len and not pol:
                        guarded = True
                    if atom[1] == '<' and atom[2] == want_len and atom[3] == num and pol:
                        guarded = True
            if guarded:
                check.holds(rule, st, 'positional-or-keyword parameters are cut at num_args - len(<positional-only>) under a guard that keeps it non-negative', key=key)
            else:
                check.violation(rule, st, 'the positional-or-keyword parameters are cut at %s, which is negative when fewer arguments are passed than '
                                'there are positional-only parameters: a negative slice start counts from the end and removes regular '
                                'parameters that were not consumed' % show(lo)[:70], key=key,
                                witness="mask(s('a, b, /, c, d, e'), 1) must be (b, /, c, d, e)")
            for m_ in msgs:
                check.violation(rule, st, m_, key=key + '|po', witness="mask(s('a, /, b'), 1) must be (b)")
            continue
        if not ok or pok[3] != NONE:
            check.inconclusive(rule, st, 'slice-based consumption: start of the positional-or-keyword cut not understood: %s' % show(lo)[:80], key=key)
            continue
        ln = inner[3]
        if ln == want_len:
            check.holds(rule, st, 'positional-or-keyword parameters are cut at max(0, num_args - len(<all positional-only parameters>))', key=key)
        elif ln[0] == 'C' and ln[1] == 'len' and ln[2] and ln[2][0][0] == 'SL' and ln[2][0][1] == PO:
            check.violation(rule, st, 'the number of positional-or-keyword parameters to consume is computed from the length of the *already cut* '
                            'positional-only list (%s): with positional-only parameters present, too many regular parameters are consumed'
                            % show(ln)[:60], key=key, witness="mask(s('a, /, b, c'), 1) must be (b, c)")
        else:
            check.inconclusive(rule, st, 'slice-based consumption: %s' % show(ln)[:80], key=key)
        for m_ in msgs:
            check.violation(rule, st, m_, key=key + '|po', witness="mask(s('a, /, b'), 1) must be (b)")
    return judged


def _raise_in_prefix(p):
    """did the path raise right at the exhaustion exit (before the name loop)?"""
    for e in p.effects:
        if e.kind == 'loop' and e.extra == 'for' and e.target[0] != 'C':
            return False
        if e.kind == 'raise':
            return True
    return False


def early_returns(check, model, rule_identity, rule_partial):
    """returning paths of _mask that bypass apply_params.  The only such result that can be right is the input signature itself
    (upgraded), and only when nothing is consumed, named or hidden (rule_identity: C03.R5); in partial mode no such path may exist
    at all, since the tail of _mask is what pushes the provenance one level down and puts the partial object at depth 0
    (rule_partial: C19.R3 / C08.R4)."""
    sig = model.role_term('sig')
    named = model.role_term('named_args')
    for i, p in enumerate(model.early_rets):
        v = p.value
        node = [e for e in p.effects if e.kind == 'return'][-1].node
        st = site(None, node)
        g, unknown = flag_vals(model, p)
        named_falsy = any(a == ('truthy', named) and not pol for a, pol in p.lits)
        identity = v == sig or (v[0] in ('C', 'M') and ('_upgrade' in str(v[1]) or (v[0] == 'M' and '_upgrade' in str(v[2]))) and mentions(v, sig))
        key = '_signatures:_mask|early-return|%s' % show(v)[:60]
        if rule_identity:
            asked = [k for k in FLAGS + ['num_args'] if g.get(k) is not False] + ([] if named_falsy else ['named_args'])
            if not identity:
                check.inconclusive(rule_identity, st, 'a result of _mask is not built by apply_params: %s' % show(v)[:100], key=key)
            elif asked:
                check.violation(rule_identity, st, 'the input signature is returned unchanged although %s may be set' % ', '.join(asked), key=key,
                                guards=lits_text(p.lits), witness="mask(s('a, b'), 1) must be (b)")
            else:
                check.holds(rule_identity, st, 'the input signature is returned unchanged only when nothing is consumed, named or hidden', key=key,
                            guards=lits_text(p.lits))
        if rule_partial:
            part = g.get('partial')
            if part is None:
                part = g.get('partial_truthy')
            if part is False:
                check.holds(rule_partial, st, 'early return outside partial mode only', key=key + '|partial', guards=lits_text(p.lits))
            else:
                check.violation(rule_partial, st, 'in partial mode _mask can return %s without going through its tail: the provenance is not '
                                'pushed one level down and the partial object gets no depth 0' % show(v)[:60], key=key + '|partial',
                                guards=lits_text(p.lits), witness="signature(partial(f)).sources['+depths'] must be {partial_obj: 0, f: 1}")


def rule_mask_partial(check, model, rule):
    """C19.R3 / C08.R4: in partial mode the provenance map is a depth-increased copy
    and the partial object is (re-)added at depth 0 afterwards"""
    n = 0
    seen = set()
    early_returns(check, model, None, rule)
    src0 = ('S', model.sr, K(5))
    for p, items in model.ret_paths:
        g, unknown = flag_vals(model, p)
        part = g.get('partial')
        if part is None:
            part = g.get('partial_truthy')
        src = items[5]
        node = [e for e in p.effects if e.kind == 'return'][-1].node
        st = site(None, node)
        key = '_signatures:_mask|partial=%s' % part
        if key in seen:
            continue
        seen.add(key)
        n += 1
        if part is None:
            check.violation(rule, st, 'the provenance map passed on does not depend on partial mode', key=key, guards=lits_text(p.lits))
            continue
        if part:
            if not (src[0] == 'C' and isinstance(src[1], str) and src[1].endswith(':copy_sources') and src[2] and src[2][0] == src0):
                check.violation(rule, st, 'partial mode: provenance map is %s, expected copy_sources(map, increase=True)' % show(src)[:80],
                                key=key, guards=lits_text(p.lits), witness="signature(partial(f)).sources['+depths'][f] must be 1")
                continue
            inc = dict(src[3]).get('increase')
            if inc is None and len(src[2]) > 2:
                inc = src[2][2]
            if inc != K(True) and inc != K(1):
                check.violation(rule, st, 'partial mode: depths are not increased (increase=%s)' % (show(inc) if inc else 'default'), key=key,
                                witness="signature(partial(f)).sources['+depths'][f] must be 1")
                continue
            sets = [(i, e) for i, e in enumerate(p.effects) if e.kind == 'mut' and e.op == 'setitem' and e.target == ('S', src, K('+depths'))
                    and e.args[0] == model.partial_term()]
            copies = [i for i, e in enumerate(p.effects) if e.kind == 'call' and e.result == src]
            if not sets:
                check.violation(rule, st, 'partial mode: the partial object gets no depth entry', key=key,
                                witness="signature(partial(f)).sources['+depths'][partial_obj] must be 0")
            elif sets[-1][1].args[1] != K(0):
                check.violation(rule, st, 'partial mode: the partial object gets depth %s' % show(sets[-1][1].args[1]), key=key,
                                witness="signature(partial(f)).sources['+depths'][partial_obj] must be 0")
            elif copies and sets[-1][0] < copies[0]:
                check.violation(rule, st, 'partial mode: depth 0 is assigned before the depth-increasing copy', key=key)
            else:
                check.holds(rule, st, 'partial mode: copy with depths + 1, then partial object at depth 0', key=key, guards=lits_text(p.lits))
        else:
            if src != src0:
                check.violation(rule, st, 'non-partial mode: provenance map is %s' % show(src)[:80], key=key, guards=lits_text(p.lits))
            else:
                check.holds(rule, st, 'non-partial mode: the (already private) map of the classification is passed on', key=key)
    check.floor(rule, 'partial / non-partial result paths', n, 2)


def rule_mask_binding(check, model, rule):
    """C03.R5 second half: mask() binds every public parameter to the same-named
    parameter of _mask and passes None as the partial object"""
    e = model.pub_call
    st = site(None, e.node)
    pos = model.fi.params()[0]
    for need in ['sig', 'num_args', 'named_args'] + FLAGS:
        key = '_signatures:mask|bind|%s' % need
        got = model.bound.get(need)
        if need not in pos:
            check.inconclusive(rule, st, '_mask has no parameter named %s' % need, key=key)
        elif got == ('P', need):
            check.holds(rule, st, 'mask(%s) reaches _mask(%s)' % (need, need), key=key)
        else:
            check.violation(rule, st, 'mask() passes %s as _mask\'s %s' % (show(got) if got else 'nothing', need), key=key,
                            effect=repr(e)[:300], witness="mask(sig, hide_args=True) must hide the positional parameters")
    got = model.bound.get(model.partial_param)
    key = '_signatures:mask|bind|partial'
    if got == NONE:
        check.holds(rule, st, 'mask() runs _mask in non-partial mode', key=key)
    else:
        check.violation(rule, st, 'mask() passes %s as the partial object' % (show(got) if got else 'nothing'), key=key)


def _exits(stmt, in_loop=False):
    """does the statement contain a way out of the block it is in (return; break/continue of an enclosing loop)?"""
    for c in ast.iter_child_nodes(stmt):
        if isinstance(c, ast.Return):
            return True
        if isinstance(c, (ast.Break, ast.Continue)) and not in_loop:
            return True
        if isinstance(c, (ast.FunctionDef, ast.AsyncFunctionDef, ast.Lambda, ast.ClassDef)):
            continue
        if _exits(c, in_loop or isinstance(c, (ast.For, ast.While))):
            return True
    return False


def _implied_falsy(test):
    """names that are falsy whenever `test` is true"""
    if isinstance(test, ast.BoolOp) and isinstance(test.op, ast.And):
        out = set()
        for v in test.values:
            out |= _implied_falsy(v)
        return out
    if isinstance(test, ast.UnaryOp) and isinstance(test.op, ast.Not):
        o = test.operand
        if isinstance(o, ast.Name):
            return set([o.id])
        if isinstance(o, ast.BoolOp) and isinstance(o.op, ast.Or):
            out = set()
            for v in o.values:
                if isinstance(v, ast.Name):
                    out.add(v.id)
                elif isinstance(v, ast.BoolOp) and isinstance(v.op, ast.Or):
                    out |= _implied_falsy(ast.UnaryOp(op=ast.Not(), operand=v))
            return out
    return set()


_MUTATORS = frozenset(['update', 'add', 'clear', 'pop', 'append', 'remove', 'discard', 'extend', 'insert', 'popitem', 'setdefault',
                       'difference_update', 'intersection_update', 'sort', 'reverse'])


def rule_mask_flag_independence(check, model, rule):
    """C03.R8: "mask raises ValueError exactly when sig could not be passed those arguments at all" -- a statement about the signature,
    the number of positionals and the names only; "the hide_* flags only ever remove parameters".  So no decision to raise may depend on a
    hide flag: a `raise` of _mask is not inside a branch chosen by a flag (nor in the `elif`/`else` of one), and none of the tests on the
    way to it -- the enclosing conditions, the iterables of the enclosing loops -- reads a variable that a flag-chosen branch has
    assigned or mutated before.  (Applying the flags to what the arguments left -- after the loop over the names -- satisfies this;
    emptying the list of names, the consumed set or a bucket under a flag beforehand does not.)"""
    from .callgraph import raise_key
    fi = model.fi
    fnode = fi.node
    flags = set(model.role[f] for f in FLAGS)

    def names_in(node):
        return set(x.id for x in ast.walk(node) if isinstance(x, ast.Name))

    # 1. variables assigned or mutated under a flag-chosen branch (or from an expression reading a flag), with the line it first happens
    taint = {}      # name -> (line, why)

    def flagged(test):
        return bool(names_in(test) & (flags | set(taint_flags)))
    taint_flags = set()    # variables that hold a flag-derived truth value (hide = hide_args or hide_varargs)

    def written(stmt):
        """(name, line) for every local the statement assigns or mutates"""
        out = []
        for x in ast.walk(stmt):
            if isinstance(x, ast.Name) and isinstance(x.ctx, (ast.Store, ast.Del)):
                out.append((x.id, x.lineno))
            elif isinstance(x, (ast.Subscript, ast.Attribute)) and isinstance(x.ctx, (ast.Store, ast.Del)) and isinstance(x.value, ast.Name):
                out.append((x.value.id, x.lineno))
            elif isinstance(x, ast.Call) and isinstance(x.func, ast.Attribute) and x.func.attr in _MUTATORS and isinstance(x.func.value, ast.Name):
                out.append((x.func.value.id, x.lineno))
            elif isinstance(x, ast.Call) and isinstance(x.func, ast.Name) and x.func.id == '_remove_from_src' and x.args and isinstance(x.args[0], ast.Name):
                out.append((x.args[0].id, x.lineno))
        return out

    def visit(stmts, under):
        for s_ in stmts:
            if isinstance(s_, ast.Assign) and len(s_.targets) == 1 and isinstance(s_.targets[0], ast.Name) and names_in(s_.value) & (flags | taint_flags):
                # a value computed from a flag: a truth value derived from flags, or a bucket chosen by one
                if isinstance(s_.value, (ast.BoolOp, ast.UnaryOp, ast.Compare, ast.Name)):
                    taint_flags.add(s_.targets[0].id)
                else:
                    taint.setdefault(s_.targets[0].id, (s_.lineno, 'computed from a hide flag'))
                continue
            if isinstance(s_, ast.If):
                u = under or (flagged(s_.test) and norm(s_.test))
                visit(s_.body, u)
                visit(s_.orelse, u)
                continue
            if isinstance(s_, (ast.For, ast.While)):
                u = under or (isinstance(s_, ast.While) and flagged(s_.test) and norm(s_.test))
                visit(s_.body, u)
                visit(s_.orelse, u)
                continue
            if isinstance(s_, ast.Try):
                for blk in [s_.body, s_.orelse, s_.finalbody] + [h.body for h in s_.handlers]:
                    visit(blk, under)
                continue
            if isinstance(s_, (ast.With,)):
                visit(s_.body, under)
                continue
            if under:
                for name, line in written(s_):
                    taint.setdefault(name, (line, 'written under `%s`' % under))
            else:
                # conditional expressions on a flag
                for x in ast.walk(s_):
                    if isinstance(x, ast.IfExp) and flagged(x.test):
                        for name, line in written(s_):
                            taint.setdefault(name, (line, 'chosen by `%s`' % norm(x.test)))
    visit(fi.main_body, False)

    # 2. every raise
    n = 0
    for r in ast.walk(fnode):
        if not isinstance(r, ast.Raise) or r.exc is None:
            continue
        n += 1
        key = 'flag-independent|%s' % raise_key(fnode, r.exc)
        st = '%s %s' % (fi.loc(r), fi.key)
        problems = []
        # enclosing loops: a taint anywhere inside the loop reaches every iteration
        loops = []
        t = r
        while getattr(t, '_parent', None) is not None and t is not fnode:
            par = t._parent
            if isinstance(par, (ast.For, ast.While)):
                loops.append(par)
            t = par

        def tainted_at(name, line):
            tl = taint.get(name)
            if tl is None:
                return None
            if tl[0] <= line or any(lp.lineno <= tl[0] <= (lp.end_lineno or lp.lineno) for lp in loops):
                return tl
            return None
        # what must be non-empty / non-zero for this raise to be reached at all (an earlier exit taken only when one of these is
        # empty skips nothing)
        needs = set()
        t = r
        while getattr(t, '_parent', None) is not None and t is not fnode:
            par = t._parent
            if isinstance(par, ast.For) and t in par.body and isinstance(par.iter, ast.Name):
                needs.add(par.iter.id)
            if isinstance(par, ast.If) and t in par.body:
                for c_ in (par.test.values if isinstance(par.test, ast.BoolOp) and isinstance(par.test.op, ast.And) else [par.test]):
                    if isinstance(c_, ast.Name):
                        needs.add(c_.id)
            t = par
        t = r
        while getattr(t, '_parent', None) is not None and t is not fnode:
            par = t._parent
            tests = []
            if isinstance(par, ast.If) and (t in par.body or t in par.orelse):
                tests.append(par.test)
            elif isinstance(par, ast.While) and (t in par.body or t in par.orelse):
                tests.append(par.test)
            elif isinstance(par, ast.For) and (t in par.body or t in par.orelse):
                tests.append(par.iter)
            elif isinstance(par, ast.IfExp):
                tests.append(par.test)
            for test in tests:
                used = names_in(test)
                if used & (flags | taint_flags):
                    problems.append('it is taken in a branch chosen by `%s`' % norm(test)[:60])
                for name in sorted(used):
                    tl = tainted_at(name, test.lineno)
                    if tl is not None:
                        problems.append('the test `%s` on the way to it reads `%s`, which is %s (line %d)' % (norm(test)[:50], name, tl[1][:60], tl[0]))
            # guard clauses before it in an enclosing block decide whether it is reached at all
            for field in ('body', 'orelse', 'finalbody'):
                blk = getattr(par, field, None)
                if isinstance(blk, list) and t in blk:
                    for s_ in blk[:blk.index(t)]:
                        if isinstance(s_, ast.If) and _exits(s_) and names_in(s_.test) & (flags | taint_flags) \
                                and not (_implied_falsy(s_.test) & needs):
                            problems.append('an earlier exit under `%s` skips it' % norm(s_.test)[:60])
            t = par
        if problems:
            check.violation(rule, st, 'whether %s is raised depends on a hide_* flag: %s -- the flags may only remove parameters from what the '
                            'arguments left, not change which arguments are accepted' % (norm(r.exc)[:50], '; '.join(sorted(set(problems))[:2])),
                            key=key, witness="mask(s('a'), 0, 'zz', hide_kwargs=True) must raise; mask(s('a, /'), 2, hide_args=True) must raise; "
                                             "mask(s('a, *, k'), 0, 'a', hide_args=True) must not")
        else:
            check.holds(rule, st, '%s is decided by the signature and the arguments alone (no hide_* flag on the way)' % norm(r.exc)[:50], key=key)
    check.floor(rule, 'raise statements of _mask', n, 3)


def rule_remove_helper_contract(check, model, rule):
    """(round 8) `_remove_from_src(src, xs)` takes the provenance entries of `xs` away.  Whether `xs` holds *names* or *parameters* is a
    contract between the helper and every call site: a helper that reads `x.name` handed the keyword-only bucket (a dict: it iterates as
    names) or the set of consumed names raises AttributeError out of mask -- not a ValueError; one that uses `x` as the key handed a list
    of parameters removes nothing.  The helper's body and the argument of each call in _mask agree."""
    repo = model.repo
    proto = model.proto
    h = repo.func(SIG + ':_remove_from_src', required=False)
    if h is None:
        check.holds(rule, '-', 'no _remove_from_src helper', key='remove-helper|none', nontrivial=False)
        return
    check.analysed(h)
    hp = h.params()[0]
    loopvars = [l.target.id for l in ast.walk(h.node) if isinstance(l, ast.For) and isinstance(l.target, ast.Name) and isinstance(l.iter, ast.Name)
                and len(hp) > 1 and l.iter.id == hp[1]]
    wants = 'names'
    for x in ast.walk(h.node):
        if isinstance(x, ast.Attribute) and x.attr == 'name' and isinstance(x.value, ast.Name) and x.value.id in loopvars:
            wants = 'parameters'
    iPO, iPOK, iKWO = [proto.index_of_kind(k) for k in ('PO', 'POK', 'KWO')]
    n = 0
    seen = set()
    for p in model.paths:
        for e, g in walk_effects(p.effects):
            if not (e.kind == 'call' and isinstance(e.op, str) and e.op.endswith(':_remove_from_src') and len(e.args) == 2):
                continue
            a = e.args[1]
            k = (getattr(e.node, 'lineno', 0), getattr(e.node, 'col_offset', 0))
            if k in seen:
                continue
            seen.add(k)
            gives = None
            r = a
            if r[0] == 'V' and len(r) > 3 and r[3] == 'after':
                r = model.resolve_after(r, p)[0] or r
            if r[0] == 'SET':
                gives = 'names'
            elif r[0] == 'C' and isinstance(r[1], str) and r[1].endswith(':_pnames'):
                gives = 'names'
            elif model.sides.bucket(r) == ('sig', iKWO) or (r[0] == 'D'):
                gives = 'names'          # a mapping iterates as its keys
            elif model.sides.bucket(r) in (('sig', iPO), ('sig', iPOK)) or (r[0] == 'SL' and model.sides.bucket(r[1]) in (('sig', iPO), ('sig', iPOK))) \
                    or r[0] == 'L':
                gives = 'parameters'
            elif r[0] == 'M' and r[2] == 'values':
                gives = 'parameters'
            n += 1
            key = 'remove-helper|%s' % norm(e.node)[:60]
            st = site(None, e.node)
            if gives is None:
                check.inconclusive(rule, st, 'what %s hands to _remove_from_src is not understood' % show(a)[:60], key=key)
            elif gives != wants:
                check.violation(rule, st, '_remove_from_src works on %s, but %s hands it %s: %s' % (
                    wants, norm(e.node)[:60], gives,
                    'AttributeError (not ValueError) leaves mask' if wants == 'parameters' else 'nothing is removed from the provenance map'), key=key,
                    witness="mask(s('a, *, k'), hide_kwargs=True)")
            else:
                check.holds(rule, st, '%s hands %s to a helper that works on %s' % (norm(e.node)[:50], gives, wants), key=key)
    check.floor(rule, 'calls of _remove_from_src in _mask', n, 2)


def rule_reserved_names_complete(check, model, rule):
    """(D38/D58b) the names under which a keyword absorbed by **kwargs must *not* be displayed are those of the parameters that no keyword
    can reach and that stay in the result: what is left of the positional-only bucket, and both star parameters.  The set the test is made
    against is built from all three, before the loop over the names (its content must not depend on their order)."""
    proto = model.proto
    iPO, iVP, iVK = proto.index_of_kind('PO'), proto.index_of_kind('VP'), proto.index_of_kind('VK')
    found = None
    for p in model.paths:
        for e, g in walk_effects(p.effects):
            if e.kind == 'loop':
                for sp in e.sub:
                    for atom, pol in sp.lits:
                        if atom[0] == 'in' and _container_role(model, atom[2], {}) == 'in_reserved':
                            found = (p, atom[2])
        if found:
            break
    key = 'reserved-names|complete'
    st = '%s %s' % (model.fi.loc(), model.fi.key)
    if found is None:
        check.holds(rule, st, 'no reserved-name set in _mask (the display parameter is guarded otherwise: see the per-name table)', key=key, nontrivial=False)
        return
    p, rset = found
    init = model.interp.obj_init.get(rset)
    mentioned = set()
    terms = [init] if init is not None else []
    for e, g in walk_effects(p.effects):
        if e.kind == 'mut' and e.target == rset and e.op in ('update', 'add', 'ior') and e.args:
            terms.extend(e.args)
    for t in terms:
        for s_ in subterms(t):
            b = model.sides.bucket(s_)
            if b is not None and b[0] == 'sig':
                mentioned.add(b[1])
    missing = [proto.kind_at(i) for i in (iPO, iVP, iVK) if i not in mentioned]
    if missing:
        check.violation(rule, st, 'the set of names a partial keyword absorbed by **kwargs cannot be displayed under leaves out the %s parameter(s): '
                        'a keyword of that name gets a display parameter next to the parameter of the same name, and building the signature raises '
                        'ValueError for a valid partial object' % '/'.join(missing), key=key,
                        witness="def f(*args, **kwargs): ...; signatures.signature(functools.partial(f, args=1))")
    else:
        check.holds(rule, st, 'the reserved names cover what is left of the positional-only parameters and both star parameters', key=key)
