"""functools.partial branches (C19.R1, C19.R4)."""
import ast
from .callgraph import resolve_once
from .index import Inconclusive, norm
from .interp import Interp, Policy, show, show_lit, walk_effects, K, NONE, subterms, mentions
from .rules_merge import site, lits_text
from .rules_embed import _bind
from .rules_mask import FLAGS

SIG = '_signatures'


def _mask_calls(check, key):
    fi = check.repo.func(key)
    check.analysed(fi)
    it = Interp(check.repo, Policy())
    paths = it.run(fi)
    check.absorb(it)
    out = []
    for p in paths:
        for e, g in walk_effects(p.effects):
            if e.kind == 'call' and isinstance(e.op, str) and e.op.endswith(':_mask'):
                out.append((p, e, it))
    return fi, out


def rule_partial_siblings(check, model, rule):
    sites = [('_signatures:signature', 'plain retrieval'), ('_autoforwards:autoforwards_partial', 'discovery')]
    for key, what in sites:
        fi, calls = _mask_calls(check, key)
        pos = fi.params()[0]
        pobj = ('P', pos[0])
        st0 = site(None, fi.node)
        if not calls:
            check.violation(rule, st0, '%s: the partial branch no longer masks the bound arguments (_mask call not found)' % what,
                            key='%s|no-mask' % key, witness="signature(partial(f, 1)) must drop f's first parameter")
            continue
        seen = set()
        for p, e, it in calls:
            if norm(e.node) in seen:
                continue
            seen.add(norm(e.node))
            st = site(None, e.node)
            b = _bind(model.fi, e.args, e.kws)
            if b is None:
                check.inconclusive(rule, st, 'cannot bind the _mask arguments', key='%s|bind' % key)
                continue
            # the branch is guarded by isinstance(obj, partial) in plain retrieval
            if key.endswith(':signature'):
                lits = dict(p.lits)
                guard = [a for a in lits if a[0] == 'isinstance' and a[1] == pobj and 'partial' in str(a[2])]
                k = '%s|guard' % key
                if guard and lits[guard[0]] is True:
                    check.holds(rule, st, 'partial branch guarded by isinstance(obj, functools.partial)', key=k)
                else:
                    check.violation(rule, st, 'the partial-mode mask is not guarded by isinstance(obj, partial)', key=k, guards=lits_text(p.lits))
            exp = {
                'num_args': ('C', 'len', (('A', pobj, 'args'),), ()),
            }
            k = '%s|num_args' % key
            got = b.get(model.role['num_args'])
            if got == exp['num_args']:
                check.holds(rule, st, '%s: masks len(<partial>.args) positionals' % what, key=k)
            else:
                check.violation(rule, st, '%s: the number of masked positionals is %s, expected len(<partial>.args)' % (what, show(got) if got else None),
                                key=k, effect=repr(e)[:300], witness="signature(partial(f, 1, 2)) must drop two parameters")
            for f in FLAGS:
                k = '%s|%s' % (key, f)
                got = b.get(model.role[f])
                if got == K(False) or got is None and False:
                    check.holds(rule, st, '%s: %s is False' % (what, f), key=k)
                else:
                    check.violation(rule, st, '%s: %s is %s in partial mode, expected False' % (what, f, show(got) if got else 'defaulted'), key=k,
                                    effect=repr(e)[:300], witness="signature(partial(f)) must keep all of f's parameters")
            k = '%s|keywords' % key
            got = b.get(model.role['named_args'])
            ok = False
            if got is not None and got[0] == 'B' and got[1] == 'or' and got[2] == ('A', pobj, 'keywords'):
                alt = got[3]
                init = it.obj_init.get(alt)
                if alt[0] == 'D' and init is not None and (init == ('T', ()) or (init[0] == 'C' and not init[2])):
                    ok = True
            if got == ('A', pobj, 'keywords'):
                ok = True     # functools.partial always has a dict here on supported versions
            if ok:
                check.holds(rule, st, '%s: bound keywords mapping is <partial>.keywords (or empty)' % what, key=k)
            else:
                check.violation(rule, st, '%s: named arguments are %s, expected <partial>.keywords or {}' % (what, show(got)[:80] if got else None),
                                key=k, effect=repr(e)[:300], witness="signature(partial(f, b=2)) must show b=2 keyword-only")
            k = '%s|partial_obj' % key
            got = b.get(model.partial_param)
            if got == pobj:
                check.holds(rule, st, '%s: the partial object itself is the partial_obj' % what, key=k)
            else:
                check.violation(rule, st, '%s: partial_obj is %s, expected the partial object' % (what, show(got) if got else None), key=k,
                                effect=repr(e)[:300], witness="signature(partial(f, x=1)).sources['x'] == [the partial]")
            # the signature masked is computed from <partial>.func
            k = '%s|func' % key
            sg = b.get(model.role['sig'])
            if sg is not None and mentions(sg, ('A', pobj, 'func')):
                if key.endswith(':signature'):
                    # default sources on <partial>.func
                    if sg[0] == 'C' and str(sg[1]).endswith(':set_default_sources') and len(sg[2]) == 2 and sg[2][1] == ('A', pobj, 'func'):
                        check.holds(rule, st, 'plain retrieval: signature of <partial>.func with default sources on <partial>.func', key=k)
                    else:
                        check.violation(rule, st, 'plain retrieval: the masked signature is %s, expected set_default_sources(signature(p.func), p.func)'
                                        % show(sg)[:120], key=k, witness="signature(partial(f)).sources['a'] == [f]")
                else:
                    check.holds(rule, st, 'discovery: the masked signature is discovered from <partial>.func', key=k)
            else:
                check.violation(rule, st, '%s: the masked signature is not computed from <partial>.func: %s' % (what, show(sg)[:120] if sg else None),
                                key=k, witness="signature(partial(f, 1)) is about f")


def rule_partial_discovery(check, rule):
    """autoforwards_partial passes the bound positionals as known arguments and an
    empty keyword mapping; autoforwards dispatches partial objects to it"""
    repo = check.repo
    fi = repo.func('_autoforwards:autoforwards_partial')
    check.analysed(fi)
    it = Interp(repo, Policy())
    paths = it.run(fi)
    check.absorb(it)
    pobj = ('P', fi.params()[0][0])
    af = repo.func('_autoforwards:autoforwards')
    calls = []
    for p in paths:
        for e, g in walk_effects(p.effects):
            if e.kind == 'call' and e.op == af.key:
                calls.append(e)
    st = site(None, fi.node)
    # every path runs the discovery: no own exit (raise / return) before it, whatever the bound arguments look like
    for p in paths:
        has = any(e.kind == 'call' and e.op == af.key for e, g in walk_effects(p.effects))
        # (D59) one exit before it is legitimate: plain retrieval of the partial object itself raised ValueError -- the real function
        # cannot take what the partial binds, there is no signature to discover
        plain_failed = False
        # ... recognised as: the raising call is the plain retrieval of the partial object / of its function's own def, or the mask of
        # *that* signature (not of the discovered one), before discovery runs
        af_lines = [c_.lineno for c_ in ast.walk(fi.node) if isinstance(c_, ast.Call) and norm(c_.func) == 'autoforwards']
        plain_names = set()
        for a_ in ast.walk(fi.node):
            if isinstance(a_, ast.Assign) and isinstance(a_.value, ast.Call) and norm(a_.value.func).endswith('_signatures.signature') \
                    and a_.value.args and norm(resolve_once(fi.node, a_.value.args[0])) in (pobj[1], '%s.func' % pobj[1]):
                plain_names.update(t_.id for t_ in a_.targets if isinstance(t_, ast.Name))
        vtries = []
        for t_ in ast.walk(fi.node):
            if isinstance(t_, ast.Try) and t_.body and (not af_lines or (t_.body[-1].end_lineno or t_.body[-1].lineno) < min(af_lines)) and any(
                    isinstance(c_, ast.Call) and norm(c_.func).endswith('_signatures.signature') and c_.args
                    and norm(resolve_once(fi.node, c_.args[0])) in (pobj[1], '%s.func' % pobj[1]) for b_ in t_.body for c_ in ast.walk(b_)):
                vtries.append((t_.body[0].lineno, t_.body[-1].end_lineno or t_.body[-1].lineno))
        for a, pol in p.lits:
            if a[0] == 'raises' and pol and any(lo <= a[1][0] <= hi for lo, hi in vtries):
                # raised somewhere in the try block that validates the binding against the real signature, before discovery
                plain_failed = True
            if a[0] == 'raises' and pol:
                for c_ in ast.walk(fi.node):
                    if not (isinstance(c_, ast.Call) and c_.lineno == a[1][0] and (not af_lines or c_.lineno < min(af_lines))):
                        continue
                    if (norm(c_.func).endswith('_signatures.signature') or norm(c_.func).endswith('cleanup_functools_wrapper')) and c_.args \
                            and norm(resolve_once(fi.node, c_.args[0])) in (pobj[1], '%s.func' % pobj[1]):
                        plain_failed = True
                    if norm(c_.func).split('.')[-1] in ('_mask', 'mask') and c_.args and isinstance(resolve_once(fi.node, c_.args[0]), ast.Name) \
                            and (resolve_once(fi.node, c_.args[0]).id in plain_names or (isinstance(c_.args[0], ast.Name) and c_.args[0].id in plain_names)):
                        plain_failed = True
        if not has and p.status == 'raise' and plain_failed:
            check.holds(rule, st, 'leaves before discovery only when plain retrieval of the partial object itself fails', key='autoforwards_partial|plain-failed')
            continue
        if not has and p.status in ('raise', 'return', 'fall'):
            last = [e for e in p.effects if e.kind in ('raise', 'return')]
            k = 'autoforwards_partial|early-exit|%s' % lits_text(p.lits)[:80]
            check.violation(rule, site(None, last[-1].node) if last else st, 'autoforwards_partial leaves (%s) without running discovery on '
                            '<partial>.func under %s: such partial objects get the plain signature although the wrapped function forwards its '
                            'star parameters' % (p.status, lits_text(p.lits)[:100] or 'no condition'), key=k,
                            witness="partial(wrapper, a=1) over a wrapper forwarding *args/**kwargs: discovery must still look through it")
    if not calls:
        check.violation(rule, st, 'autoforwards_partial does not run discovery on <partial>.func', key='autoforwards_partial|call',
                        witness="signature(partial(wrapper, inner)) must look through the partial")
    for e in calls[:1]:
        b = _bind(af, e.args, e.kws)
        apos = af.params()[0]
        st = site(None, e.node)
        k = 'autoforwards_partial|func'
        if b and b.get(apos[0]) == ('A', pobj, 'func'):
            check.holds(rule, st, 'discovery runs on <partial>.func', key=k)
        else:
            check.violation(rule, st, 'discovery runs on %s instead of <partial>.func' % (show(b.get(apos[0])) if b else '?'), key=k)
        k = 'autoforwards_partial|args'
        if b and b.get(apos[1]) == ('A', pobj, 'args'):
            check.holds(rule, st, 'bound positionals are the known arguments', key=k)
        else:
            check.violation(rule, st, 'known positional arguments are %s, expected <partial>.args' % (show(b.get(apos[1])) if b and b.get(apos[1]) else None),
                            key=k, witness="partial(wrapper, inner): `inner` must resolve the callee parameter")
        k = 'autoforwards_partial|kwargs'
        got = b.get(apos[2]) if b else None
        init = it.obj_init.get(got) if got else None
        if got is not None and got[0] == 'D' and init == ('T', ()):
            check.holds(rule, st, 'known keyword arguments are empty (bound keywords do not resolve callee parameters)', key=k)
        else:
            check.violation(rule, st, 'known keyword arguments are %s, expected {}' % (show(got) if got else 'defaulted'), key=k,
                            witness="partial(wrapper, func=inner): keywords do not resolve callee parameters")
    # dispatch
    check.analysed(af)
    it2 = Interp(repo, Policy())
    ps = it2.run(af)
    check.absorb(it2)
    obj = ('P', af.params()[0][0])
    found = False
    for p in ps:
        lits = dict(p.lits)
        for e, g in walk_effects(p.effects):
            if e.kind == 'call' and e.op == fi.key:
                found = True
                k = 'autoforwards|dispatch-partial'
                guard = [a for a in lits if a[0] == 'isinstance' and a[1] == obj and 'partial' in str(a[2]) and lits[a] is True]
                if guard and e.args and e.args[0] == obj:
                    check.holds(rule, site(None, e.node), 'partial objects are dispatched to autoforwards_partial', key=k)
                else:
                    check.violation(rule, site(None, e.node), 'autoforwards_partial is reached without isinstance(obj, functools.partial)', key=k,
                                    guards=lits_text(p.lits))
    if not found:
        check.violation(rule, site(None, af.node), 'autoforwards no longer dispatches partial objects', key='autoforwards|dispatch-partial')
