"""E2/E3 -- path enumeration over the statement tree with abstract effects.

This is an *effect analysis over an abstract domain of access-path terms*, not
an execution: nothing of sigtools is imported or run, no value is ever
computed and no solver is consulted.  A path is a conjunction of guard
literals (uninterpreted atoms over terms, obtained by decomposing `and`/`or`/
`not` by short-circuit semantics) plus the ordered list of abstract effects
(container mutations, attribute stores, raises, calls, returns) that the
statements on it perform.  Loops are regions: their body is analysed once for
a generic element; the paths through the body are attached to a `loop` effect.

Terms (tuples):
  ('P', name)                 parameter of the root function
  ('K', const)                constant
  ('A', base, attr)           attribute
  ('S', base, key)            subscript
  ('SL', base, lo, hi)        slice
  ('E', iterable, lid)        generic element of an iteration (for / comprehension)
  ('IDX', lid)                enumerate() index of loop lid
  ('N', iterator, nid)        result of next(iterator)
  ('C', callee, args, kws)    result of a call that is not inlined
  ('M', base, meth, args, kws) result of a method call that is not inlined
  ('T', items)                tuple value
  ('L'|'D'|'SET', oid)        fresh list / dict / set object created at site oid
  ('O', classkey, oid)        fresh instance of a package class
  ('G', kind, elt, gens, gid) comprehension / generator expression
  ('B', op, a, b) ('U', op, a) ('IF', test, a, b)   value-level operators
  ('GLOB', module, name) ('BI', name) ('EXT', dotted) ('FN', funckey) ('CLS', classkey)
  ('STAR', t) ('DSTAR', t)    starred call arguments
  ('CLOSURE', funckey, cid) ('LAMBDA', lid)
  ('TOP', why)                unknown
"""
import ast
import builtins
import sys

from .index import Inconclusive, norm

MUTATORS = frozenset([
    'append', 'extend', 'insert', 'pop', 'remove', 'update', 'setdefault',
    'clear', 'discard', 'add', 'popitem', 'sort', 'reverse', 'appendleft',
    'difference_update', 'intersection_update', 'symmetric_difference_update',
])

MAX_PATHS = 60000


def K(v):
    return ('K', v)


NONE = K(None)


def show(t, depth=0):
    """compact rendering of a term for reports"""
    if not isinstance(t, tuple) or not t:
        return repr(t)
    if depth > 8:
        return '...'
    k = t[0]
    d = depth + 1
    if k == 'P':
        return t[1]
    if k == 'K':
        return repr(t[1])
    if k == 'A':
        return '%s.%s' % (show(t[1], d), t[2])
    if k == 'S':
        return '%s[%s]' % (show(t[1], d), show(t[2], d))
    if k == 'SL':
        return '%s[%s:%s]' % (show(t[1], d), '' if t[2] == NONE else show(t[2], d),
                              '' if t[3] == NONE else show(t[3], d))
    if k == 'E':
        return 'each(%s)' % show(t[1], d)
    if k == 'IDX':
        return 'idx@%s' % (t[1],)
    if k == 'N':
        return 'next(%s)' % show(t[1], d)
    if k == 'C':
        return '%s(%s)' % (t[1] if isinstance(t[1], str) else show(t[1], d), _show_args(t[2], t[3], d))
    if k == 'M':
        return '%s.%s(%s)' % (show(t[1], d), t[2], _show_args(t[3], t[4], d))
    if k == 'T':
        return '(%s)' % ', '.join(show(x, d) for x in t[1])
    if k in ('L', 'D', 'SET'):
        return '%s@%s' % ({'L': 'list', 'D': 'dict', 'SET': 'set'}[k], _show_oid(t[1]))
    if k == 'O':
        return '%s@%s' % (t[1].split(':')[-1], _show_oid(t[2]))
    if k == 'G':
        return '<%s %s for %s>' % (t[1], show(t[2], d), '; '.join(show(g[0], d) for g in t[3]))
    if k == 'B':
        return '(%s %s %s)' % (show(t[2], d), t[1], show(t[3], d))
    if k == 'U':
        return '(%s %s)' % (t[1], show(t[2], d))
    if k == 'IF':
        return '(%s if %s else %s)' % (show(t[2], d), show_atoms(t[1]), show(t[3], d))
    if k in ('GLOB',):
        return '%s.%s' % (t[1], t[2])
    if k in ('BI', 'EXT', 'FN', 'CLS'):
        return str(t[1])
    if k in ('STAR',):
        return '*' + show(t[1], d)
    if k in ('DSTAR',):
        return '**' + show(t[1], d)
    if k == 'TOP':
        return 'TOP(%s)' % (t[1],)
    if k == 'IT':
        return 'iter(%s)' % show(t[1], d)
    return '%s(%s)' % (k, ', '.join(show(x, d) if isinstance(x, tuple) else repr(x) for x in t[1:]))


def _show_oid(oid):
    if isinstance(oid, tuple) and oid and isinstance(oid[0], int):
        return 'L%d' % oid[0]
    if isinstance(oid, tuple):
        return '/'.join(_show_oid(x) for x in oid if x != ())
    return str(oid)


def _show_args(args, kws, d):
    parts = [show(a, d) for a in args]
    parts += ['%s=%s' % (n, show(v, d)) if n is not None else '**' + show(v, d) for n, v in kws]
    return ', '.join(parts)


def show_atom(atom):
    k = atom[0]
    if k == 'truthy':
        return show(atom[1])
    if k in ('has_default', 'has_annotation', 'isnone', 'exhausted', 'broke'):
        return '%s(%s)' % (k, show(atom[1]) if isinstance(atom[1], tuple) else atom[1])
    if k in ('eq', 'is', 'in'):
        return '%s(%s, %s)' % (k, show(atom[1]), show(atom[2]))
    if k == 'cmp':
        return '(%s %s %s)' % (show(atom[2]), atom[1], show(atom[3]))
    if k == 'isinstance':
        return 'isinstance(%s, %s)' % (show(atom[1]), atom[2])
    if k == 'raises':
        return 'raises(%s @%s)' % (atom[2], atom[1])
    return '%s(%s)' % (k, ', '.join(show(x) if isinstance(x, tuple) else repr(x) for x in atom[1:]))


def show_lit(lit):
    atom, pol = lit
    return ('' if pol else 'not ') + show_atom(atom)


def show_atoms(x):
    """x: a condition tree ('lit', atom, pol) | ('and', [..]) | ('or', [..]) | ('const', b)"""
    if x[0] == 'lit':
        return show_lit((x[1], x[2]))
    if x[0] == 'const':
        return repr(x[1])
    return '(' + (' %s ' % x[0]).join(show_atoms(y) for y in x[1]) + ')'


def subterms(t):
    """every tagged term inside t (containers of terms -- argument tuples, keyword
    pairs, generator clauses -- are looked through)"""
    if not isinstance(t, tuple) or not t:
        return
    if isinstance(t[0], str) and t[0].isupper() or (isinstance(t[0], str) and t[0] in _TAGS):
        yield t
        rest = t[1:]
    else:
        rest = t
    for x in rest:
        if isinstance(x, tuple):
            for y in subterms(x):
                yield y


_TAGS = frozenset(['P', 'K', 'A', 'S', 'SL', 'E', 'IDX', 'N', 'C', 'M', 'T', 'L', 'D', 'SET', 'O', 'G', 'B', 'U', 'IF', 'GLOB', 'BI', 'EXT',
                   'FN', 'CLS', 'STAR', 'DSTAR', 'CLOSURE', 'LAMBDA', 'TOP', 'IT', 'V', 'MOD', 'COND', 'SLICE', 'FREE', 'SHARED_DEFAULT',
                   'EXC', 'IMPLICIT', 'LOOPEXIT',
                   # condition trees and atoms
                   'lit', 'and', 'or', 'not', 'const', 'truthy', 'eq', 'is', 'in', 'cmp', 'isinstance', 'isnone', 'has_default',
                   'has_annotation', 'exhausted', 'broke', 'raises'])


def mentions(t, target):
    for s in subterms(t):
        if s == target:
            return True
    return False


class Effect(object):
    __slots__ = ('kind', 'target', 'op', 'args', 'kws', 'node', 'result', 'sub', 'ctx', 'extra')

    def __init__(self, kind, target=None, op=None, args=(), kws=(), node=None,
                 result=None, sub=None, ctx=(), extra=None):
        self.kind = kind      # mut | store_attr | del_attr | raise | call | loop | return | yield | enter | exit | new | assert | bind
        self.target = target
        self.op = op
        self.args = args
        self.kws = kws
        self.node = node
        self.result = result
        self.sub = sub        # loop: list of SubPath
        self.ctx = ctx
        self.extra = extra

    @property
    def line(self):
        return getattr(self.node, 'lineno', 0)

    def __repr__(self):
        if self.kind == 'mut':
            return 'mut %s.%s(%s) @%d' % (show(self.target), self.op, _show_args(self.args, self.kws, 0), self.line)
        if self.kind == 'store_attr':
            return 'store %s.%s = %s @%d' % (show(self.target), self.op, show(self.args[0]), self.line)
        if self.kind == 'del_attr':
            return 'del %s.%s @%d' % (show(self.target), self.op, self.line)
        if self.kind == 'raise':
            return 'raise %s @%d' % (show(self.target) if self.target else '<reraise>', self.line)
        if self.kind == 'call':
            return 'call %s(%s) @%d' % (self.op, _show_args(self.args, self.kws, 0), self.line)
        if self.kind == 'loop':
            return 'loop over %s (%d paths) @%d' % (show(self.target), len(self.sub or ()), self.line)
        if self.kind in ('return', 'yield'):
            return '%s %s @%d' % (self.kind, show(self.target), self.line)
        if self.kind == 'new':
            return 'new %s = %s @%d' % (show(self.target), show(self.args[0]) if self.args else '', self.line)
        return '%s %s @%d' % (self.kind, show(self.target) if self.target else '', self.line)


class SubPath(object):
    __slots__ = ('lits', 'effects', 'status', 'value', 'env_out', 'env_in')

    def __init__(self, lits, effects, status, value, env_out=None, env_in=None):
        self.lits = lits
        self.effects = effects
        self.status = status
        self.value = value
        self.env_out = env_out or {}    # loop regions: final value of every variable the body assigns
        self.env_in = env_in or {}      # ... and its value at the start of the iteration

    def __repr__(self):
        return '[%s] -> %s ; %s' % (' & '.join(show_lit(l) for l in self.lits),
                                   '; '.join(repr(e) for e in self.effects),
                                   self.status + ('' if self.value is None else ' ' + show(self.value)))


class Env(object):
    __slots__ = ('vars', 'outer')

    def __init__(self, vars=None, outer=None):
        self.vars = vars if vars is not None else {}
        self.outer = outer

    def get(self, name):
        e = self
        while e is not None:
            if name in e.vars:
                return e.vars[name]
            e = e.outer
        return None

    def copy(self):
        return Env(dict(self.vars), self.outer)


class State(object):
    __slots__ = ('env', 'heap', 'memo', 'trail', 'effects', 'status', 'value')

    def __init__(self):
        self.env = Env()
        self.heap = {}
        self.memo = {}
        self.trail = []
        self.effects = []
        self.status = 'run'
        self.value = None

    def fork(self):
        s = State.__new__(State)
        s.env = self.env.copy()
        s.heap = dict(self.heap)
        s.memo = dict(self.memo)
        s.trail = list(self.trail)
        s.effects = list(self.effects)
        s.status = self.status
        s.value = self.value
        return s

    def add_lit(self, atom, pol):
        self.memo[atom] = pol
        self.trail.append((atom, pol))

    def invalidate(self, target):
        """a mutation of `target` makes memoised atoms mentioning it stale"""
        dead = [a for a in self.memo if any(mentions(x, target) for x in a[1:] if isinstance(x, tuple))]
        for a in dead:
            del self.memo[a]


class Policy(object):
    """what to inline; rules subclass or pass callables"""

    def __init__(self, inline=None, max_depth=3, try_forks=True, assume_asserts=True, split_ifexp=False):
        self._inline = inline
        # `x = a if c else b` / `return a if c else b` are executed as the equivalent if/else statement (paths fork)
        self.split_ifexp = split_ifexp
        self.max_depth = max_depth
        self.try_forks = try_forks
        self.assume_asserts = assume_asserts

    def inline(self, fi, depth, node):
        if depth >= self.max_depth:
            return False
        if self._inline is None:
            return False
        return self._inline(fi, depth, node)


class Interp(object):
    def __init__(self, repo, policy=None, tier='quick'):
        self.repo = repo
        self.policy = policy or Policy()
        self.n_paths = 0
        self.n_forks = 0
        self.nullable = set()     # E-terms coming from zip_longest (may be None)
        self.loopinfo = {}        # lid -> (kind, iterable term, node)
        self.obj_class = {}       # term -> ClassInfo (known instances)
        self.obj_init = {}        # fresh object term -> initial content term
        self.next_default = {}    # N term -> default given to next(it, default)
        self.unresolved = []      # call nodes that could not be resolved
        self.resolved = 0
        self.stack = []           # FuncInfo stack while inlining
        self.budget = MAX_PATHS

    # ------------------------------------------------------------------ API
    def run(self, fi, args=None, self_class=None):
        """enumerate paths through function `fi` taken as root.
        returns list of SubPath (status in return/raise/fall)"""
        st = State()
        pos, vararg, kwonly, kwarg = fi.params()
        args = dict(args or {})
        for i, name in enumerate(pos + kwonly + [x for x in (vararg, kwarg) if x]):
            st.env.vars[name] = args.get(name, ('P', name))
        if fi.cls is not None and pos and not fi.is_static():
            selft = st.env.vars[pos[0]]
            if not fi.is_classmethod():
                self.obj_class[selft] = fi.cls
        self.stack = [fi]
        out = self.exec_block(fi.node.body, st, (fi, ()))
        res = []
        for s in out:
            status = s.status if s.status != 'run' else 'fall'
            res.append(SubPath(list(s.trail), list(s.effects), status, s.value))
        self.n_paths += len(res)
        return res

    # ------------------------------------------------------------ statements
    def exec_block(self, stmts, st, fctx):
        states = [st]
        for stmt in stmts:
            nxt = []
            for s in states:
                if s.status != 'run':
                    nxt.append(s)
                    continue
                nxt.extend(self.exec_stmt(stmt, s, fctx))
            states = nxt
            if len(states) > self.budget:
                raise Inconclusive('path budget exceeded in %s' % fctx[0].key)
        return states

    def exec_stmt(self, node, st, fctx):
        meth = getattr(self, 'x_' + type(node).__name__, None)
        if meth is None:
            raise Inconclusive('statement kind %s not modelled (%s)' % (type(node).__name__, fctx[0].loc(node)))
        return meth(node, st, fctx)

    def x_Pass(self, node, st, fctx):
        return [st]

    x_Global = x_Pass
    x_Nonlocal = x_Pass

    def x_Import(self, node, st, fctx):
        for a in node.names:
            local = a.asname or a.name.split('.')[0]
            st.env.vars[local] = self._import_term(a.name if a.asname else a.name.split('.')[0], None)
        return [st]

    def x_ImportFrom(self, node, st, fctx):
        for a in node.names:
            st.env.vars[a.asname or a.name] = self._import_term(node.module or '', a.name)
        return [st]

    def _import_term(self, modname, attr):
        r = self.repo._resolve_import(modname, attr)
        return self._resolved_to_term(r, modname + ('.' + attr if attr else ''))

    def _resolved_to_term(self, r, fallback):
        if r is None:
            return ('EXT', fallback)
        if r[0] == 'func':
            return ('FN', r[1].key)
        if r[0] == 'class':
            return ('CLS', r[1].key)
        if r[0] == 'module':
            return ('MOD', r[1].name if r[1] is not None else fallback)
        if r[0] == 'extmodule':
            return ('EXT', r[1])
        if r[0] == 'ext':
            return ('EXT', r[1])
        if r[0] == 'value':
            return ('GLOB', r[2].name, fallback.split('.')[-1])
        return ('EXT', fallback)

    def x_Expr(self, node, st, fctx):
        v = node.value
        if isinstance(v, ast.Constant):
            return [st]   # docstring
        if isinstance(v, (ast.Yield, ast.YieldFrom)):
            t = self.ev(v.value, st, fctx) if v.value is not None else NONE
            st.effects.append(Effect('yield', target=t, node=node, op='from' if isinstance(v, ast.YieldFrom) else None))
            return [st]
        if isinstance(v, ast.Call):
            return [s for s, _ in self.call_stmt(v, st, fctx)]
        self.ev(v, st, fctx)
        return [st]

    def _split_value(self, node, value):
        """statement `node` whose value is a conditional expression -> (test, stmt-if-true, stmt-if-false), or None.
        Recognised: `a if c else b`; `(x or y or ...)[k]` (the or-chain selects the container that is subscripted)"""
        import copy
        if isinstance(value, ast.IfExp):
            a, b = copy.copy(node), copy.copy(node)
            a.value, b.value = value.body, value.orelse
            return value.test, a, b
        if isinstance(value, ast.Subscript) and isinstance(value.value, ast.BoolOp) and isinstance(value.value.op, ast.Or) \
                and len(value.value.values) >= 2:
            vals = value.value.values
            first = vals[0]
            rest = vals[1] if len(vals) == 2 else ast.copy_location(ast.BoolOp(op=ast.Or(), values=vals[1:]), value.value)
            a, b = copy.copy(node), copy.copy(node)
            a.value = ast.copy_location(ast.Subscript(value=first, slice=value.slice, ctx=value.ctx), value)
            b.value = ast.copy_location(ast.Subscript(value=rest, slice=value.slice, ctx=value.ctx), value)
            return first, a, b
        if isinstance(value, ast.BoolOp) and isinstance(value.op, ast.Or) and len(value.values) == 2 and isinstance(node, ast.Assign) \
                and all(isinstance(v_, (ast.Name, ast.Attribute)) for v_ in value.values):
            # `x = a or b` (plain names): x is a when a is truthy, else b
            a, b = copy.copy(node), copy.copy(node)
            a.value, b.value = value.values[0], value.values[1]
            return value.values[0], a, b
        return None

    def x_Return(self, node, st, fctx):
        if node.value is None:
            return [self._ret(st, NONE, node)]
        sp = self._split_value(node, node.value) if self.policy.split_ifexp is True else None
        if sp is not None:
            test, a, b = sp
            out = []
            for s, t in self.cond(test, st, fctx):
                out.extend(self.x_Return(a if t else b, s, fctx))
            return out
        if isinstance(node.value, ast.Call):
            out = []
            for s, t in self.call_stmt(node.value, st, fctx):
                if s.status == 'run':
                    out.append(self._ret(s, t, node))
                else:
                    out.append(s)
            return out
        t = self.ev(node.value, st, fctx)
        return [self._ret(st, t, node)]

    def _ret(self, st, t, node):
        st.status = 'return'
        st.value = t
        st.effects.append(Effect('return', target=t, node=node))
        return st

    def x_Raise(self, node, st, fctx):
        if node.exc is None:
            t = st.env.get('__exc__')
            st.effects.append(Effect('raise', target=t, node=node, op='reraise'))
            st.status = 'raise'
            st.value = t if t is not None else ('TOP', 'reraise')
            return [st]
        t = self.ev(node.exc, st, fctx)
        st.effects.append(Effect('raise', target=t, node=node))
        st.status = 'raise'
        st.value = t
        return [st]

    def x_Assert(self, node, st, fctx):
        out = []
        for s, b in self.cond(node.test, st, fctx):
            if b:
                out.append(s)
            elif not self.policy.assume_asserts:
                s.effects.append(Effect('raise', target=('BI', 'AssertionError'), node=node, op='assert'))
                s.status = 'raise'
                s.value = ('BI', 'AssertionError')
                out.append(s)
        return out

    def x_Delete(self, node, st, fctx):
        for t in node.targets:
            if isinstance(t, ast.Name):
                st.env.vars[t.id] = ('TOP', 'deleted')
            elif isinstance(t, ast.Attribute):
                base = self.ev(t.value, st, fctx)
                st.heap.pop((base, t.attr), None)
                st.effects.append(Effect('del_attr', target=base, op=t.attr, node=node))
                st.invalidate(base)
            elif isinstance(t, ast.Subscript):
                base = self.ev(t.value, st, fctx)
                key = self.ev_slice(t.slice, st, fctx)
                st.effects.append(Effect('mut', target=base, op='delitem', args=(key,), node=node))
                st.invalidate(base)
                sl = t.slice
                if isinstance(sl, ast.Slice) and sl.step is None and sl.upper is not None and isinstance(t.value, ast.Name) and \
                        (sl.lower is None or (isinstance(sl.lower, ast.Constant) and sl.lower.value == 0)):
                    # `del xs[:n]`: what the local name holds from here on is xs[n:] (bounds evaluated before the deletion)
                    hi = self.ev(sl.upper, st, fctx)
                    st.env.vars[t.value.id] = ('SL', base, hi, NONE)
        return [st]

    def x_Assign(self, node, st, fctx):
        out = []
        sp = self._split_value(node, node.value) if self.policy.split_ifexp else None
        if sp is not None:
            test, a, b = sp
            for s, t in self.cond(test, st, fctx):
                out.extend(self.x_Assign(a if t else b, s, fctx))
            return out
        if isinstance(node.value, ast.Call):
            pairs = self.call_stmt(node.value, st, fctx)
        else:
            pairs = [(st, self.ev(node.value, st, fctx))]
        for s, t in pairs:
            if s.status != 'run':
                out.append(s)
                continue
            for tgt in node.targets:
                for s2 in self.assign(tgt, t, s, fctx, node):
                    pass
            out.append(s)
        return out

    def x_AnnAssign(self, node, st, fctx):
        if node.value is None:
            return [st]
        t = self.ev(node.value, st, fctx)
        self.assign(node.target, t, st, fctx, node)
        return [st]

    def x_AugAssign(self, node, st, fctx):
        v = self.ev(node.value, st, fctx)
        op = type(node.op).__name__
        tgt = node.target
        if isinstance(tgt, ast.Name):
            old = self.ev(ast.Name(id=tgt.id, ctx=ast.Load()), st, fctx)
            if old[0] in ('L', 'D', 'SET', 'O', 'P', 'A', 'S'):
                st.effects.append(Effect('mut', target=old, op='i' + op, args=(v,), node=node))
                st.invalidate(old)
            st.env.vars[tgt.id] = ('B', op, old, v)
        elif isinstance(tgt, ast.Attribute):
            base = self.ev(tgt.value, st, fctx)
            old = st.heap.get((base, tgt.attr), ('A', base, tgt.attr))
            new = ('B', op, old, v)
            st.heap[(base, tgt.attr)] = new
            st.effects.append(Effect('store_attr', target=base, op=tgt.attr, args=(new,), node=node, extra='aug'))
            st.invalidate(('A', base, tgt.attr))
        elif isinstance(tgt, ast.Subscript):
            base = self.ev(tgt.value, st, fctx)
            key = self.ev_slice(tgt.slice, st, fctx)
            st.effects.append(Effect('mut', target=base, op='setitem', args=(key, ('B', op, ('S', base, key), v)), node=node))
            st.invalidate(base)
        return [st]

    def assign(self, tgt, t, st, fctx, node):
        if isinstance(tgt, ast.Name):
            st.env.vars[tgt.id] = t
        elif isinstance(tgt, ast.Attribute):
            base = self.ev(tgt.value, st, fctx)
            st.heap[(base, tgt.attr)] = t
            st.effects.append(Effect('store_attr', target=base, op=tgt.attr, args=(t,), node=node))
            st.invalidate(('A', base, tgt.attr))
        elif isinstance(tgt, ast.Subscript):
            base = self.ev(tgt.value, st, fctx)
            if isinstance(tgt.slice, ast.Slice):
                lo = self.ev(tgt.slice.lower, st, fctx) if tgt.slice.lower else NONE
                hi = self.ev(tgt.slice.upper, st, fctx) if tgt.slice.upper else NONE
                st.effects.append(Effect('mut', target=base, op='setslice', args=(lo, hi, t), node=node))
            else:
                key = self.ev(tgt.slice, st, fctx)
                st.effects.append(Effect('mut', target=base, op='setitem', args=(key, t), node=node))
            st.invalidate(base)
        elif isinstance(tgt, (ast.Tuple, ast.List)):
            parts = self.unpack(t, len(tgt.elts), st, fctx, node,
                                star=[i for i, e in enumerate(tgt.elts) if isinstance(e, ast.Starred)])
            for e, p in zip(tgt.elts, parts):
                if isinstance(e, ast.Starred):
                    e = e.value
                self.assign(e, p, st, fctx, node)
        elif isinstance(tgt, ast.Starred):
            self.assign(tgt.value, t, st, fctx, node)
        return [st]

    def unpack(self, t, n, st, fctx, node, star=()):
        """positional destructuring of term t into n parts"""
        if t[0] == 'T' and len(t[1]) == n and not star:
            return list(t[1])
        if t[0] == 'C' and t[1] == 'iter' and t[2] and t[2][0][0] == 'T' and len(t[2][0][1]) == n:
            return list(t[2][0][1])
        if t[0] == 'E':
            src = t[1]
            lid = t[2]
            if src[0] == 'C' and src[1] in ('zip_longest', 'itertools.zip_longest', 'zip', 'itertools.izip') and len(src[2]) == n:
                parts = [('E', a, lid) for a in src[2]]
                if 'zip_longest' in src[1]:
                    for p in parts:
                        self.nullable.add(p)
                return parts
            if src[0] == 'C' and src[1] == 'enumerate' and n == 2:
                return [('IDX', lid), ('E', src[2][0], lid)]
        return [('S', t, K(i)) for i in range(n)]

    def x_If(self, node, st, fctx):
        out = []
        for s, b in self.cond(node.test, st, fctx):
            out.extend(self.exec_block(node.body if b else node.orelse, s, fctx))
        return out

    def x_FunctionDef(self, node, st, fctx):
        fi = getattr(node, '_funcinfo', None)
        st.env.vars[node.name] = ('CLOSURE', fi.key if fi else node.name, (node.lineno,))
        return [st]

    x_AsyncFunctionDef = x_FunctionDef

    def x_ClassDef(self, node, st, fctx):
        st.env.vars[node.name] = ('TOP', 'local class')
        return [st]

    def x_With(self, node, st, fctx):
        cms = []
        for item in node.items:
            cm = self.ev(item.context_expr, st, fctx)
            cms.append(cm)
            st.effects.append(Effect('enter', target=cm, node=node))
            if item.optional_vars is not None:
                self.assign(item.optional_vars, ('M', cm, '__enter__', (), ()), st, fctx, node)
        out = self.exec_block(node.body, st, fctx)
        for s in out:
            for cm in reversed(cms):
                s.effects.append(Effect('exit', target=cm, node=node, extra=s.status))
        return out

    x_AsyncWith = x_With

    # -- loops ---------------------------------------------------------------
    def _lid(self, node, fctx):
        return (node.lineno, node.col_offset) + tuple(fctx[1])

    def x_For(self, node, st, fctx):
        it = self.ev(node.iter, st, fctx)
        lid = self._lid(node, fctx)
        self.loopinfo[lid] = ('for', it, node)
        if it[0] == 'L' and isinstance(node.iter, ast.List) and len(node.iter.elts) <= 4:
            # a list display written in place (`for a, b in [(x, 1), (y, 2)]:`) is iterated like the tuple of its elements
            init = self.obj_init.get(it)
            if init is not None and init[0] == 'T' and not any(x[0] == 'STAR' for x in init[1]):
                it = init
        if it[0] == 'T' and len(it[1]) <= 4:
            # unroll iteration over a known tuple
            states = [st]
            for el in it[1]:
                nxt = []
                for s in states:
                    if s.status != 'run':
                        nxt.append(s)
                        continue
                    self.assign(node.target, el, s, fctx, node)
                    for s2 in self.exec_block(node.body, s, fctx):
                        if s2.status == 'continue':
                            s2.status = 'run'
                        nxt.append(s2)
                states = nxt
            out = []
            for s in states:
                if s.status == 'break':
                    s.status = 'run'
                    out.append(s)
                elif s.status == 'run':
                    out.extend(self.exec_block(node.orelse, s, fctx))
                else:
                    out.append(s)
            return out
        body_st = st.fork()
        body_st.trail = []
        body_st.effects = []
        el = ('E', it, lid)
        self.assign(node.target, el, body_st, fctx, node)
        return self._loop_region(node, st, body_st, fctx, it, lid, None)

    x_AsyncFor = x_For

    def x_While(self, node, st, fctx):
        lid = self._lid(node, fctx)
        self.loopinfo[lid] = ('while', None, node)
        body_st = st.fork()
        body_st.trail = []
        body_st.effects = []
        return self._loop_region(node, st, body_st, fctx, ('K', 'while'), lid, node.test)

    def _assigned_names(self, stmts):
        names = set()
        attrs = set()
        for stmt in stmts:
            for n in ast.walk(stmt):
                if isinstance(n, ast.Name) and isinstance(n.ctx, (ast.Store, ast.Del)):
                    names.add(n.id)
                elif isinstance(n, ast.Attribute) and isinstance(n.ctx, (ast.Store, ast.Del)):
                    attrs.add(n.attr)
        return names, attrs

    def _loop_region(self, node, st, body_st, fctx, it, lid, test):
        # variables assigned in the body are loop-carried: unknown at entry
        names, attrs = self._assigned_names(node.body)
        tnames = set()
        if isinstance(node, (ast.For, ast.AsyncFor)):
            for n in ast.walk(node.target):
                if isinstance(n, ast.Name):
                    tnames.add(n.id)
        for n in names - tnames:
            old = body_st.env.get(n)
            if old is not None:
                body_st.env.vars[n] = ('V', n, lid, old)   # loop-carried value, initially `old`
        for key in list(body_st.heap):
            if key[1] in attrs:
                body_st.heap[key] = ('V', key[1], lid, body_st.heap[key])
        subs = []
        env_in = dict((n, body_st.env.get(n)) for n in names if body_st.env.get(n) is not None)
        constant_true = False
        if test is not None:
            entries = []
            for s, b in self.cond(test, body_st, fctx):
                if b:
                    entries.append(s)
            if isinstance(test, ast.Constant) and test.value:
                constant_true = True
        else:
            entries = [body_st]
        has_break = False
        for e in entries:
            for s in self.exec_block(node.body, e, fctx):
                status = s.status
                if status == 'run':
                    status = 'continue'
                if status == 'break':
                    has_break = True
                env_out = dict((n, s.env.get(n)) for n in names if s.env.get(n) is not None)
                subs.append(SubPath(list(s.trail), list(s.effects), status, s.value, env_out, env_in))
        st.effects.append(Effect('loop', target=it, node=node, sub=subs, ctx=lid,
                                 extra='while' if test is not None else 'for'))
        # after the loop: havoc what the body assigned
        for n in names | tnames:
            if st.env.get(n) is not None or n in names:
                st.env.vars[n] = ('V', n, lid, 'after')
        for key in list(st.heap):
            if key[1] in attrs:
                st.heap[key] = ('V', key[1], lid, 'after')
        # objects mutated in the body: memoised atoms are stale
        for sp in subs:
            for e in _walk_effects(sp.effects):
                if e.kind == 'mut' and e.target is not None:
                    st.invalidate(e.target)
        out = []
        if has_break:
            b = st.fork()
            b.add_lit(('broke', lid), True)
            out.append(b)
        if not constant_true:
            if has_break:
                st.add_lit(('broke', lid), False)
            out.extend(self.exec_block(node.orelse, st, fctx))
        elif not has_break:
            # `while True` left only through return/raise inside the body: keep one
            # top-level path that carries the loop region
            exits = [sp for sp in subs if sp.status in ('return', 'raise')]
            st.status = 'return' if any(sp.status == 'return' for sp in exits) or not exits else 'raise'
            st.value = ('LOOPEXIT', lid)
            out.append(st)
        return out

    def x_Break(self, node, st, fctx):
        st.status = 'break'
        return [st]

    def x_Continue(self, node, st, fctx):
        st.status = 'continue'
        return [st]

    # -- try -----------------------------------------------------------------
    def _handler_types(self, h, st, fctx):
        if h.type is None:
            return ['BaseException']
        if isinstance(h.type, ast.Tuple):
            return [self._exc_name(self.ev(e, st, fctx)) for e in h.type.elts]
        return [self._exc_name(self.ev(h.type, st, fctx))]

    def _exc_name(self, t):
        """class name of an exception term (class or instance creation)"""
        if t is None:
            return None
        if t[0] == 'BI':
            return t[1]
        if t[0] == 'CLS':
            return t[1]
        if t[0] == 'O':
            return t[1]
        if t[0] == 'C':
            c = t[1]
            if isinstance(c, tuple):
                return self._exc_name(c)
            return c
        if t[0] == 'EXT':
            return t[1]
        if t[0] == 'A':
            # mod.Exc where mod is a package module
            if t[1][0] == 'MOD':
                m = self.repo.modules.get(t[1][1])
                if m is not None:
                    r = self.repo.resolve_global(m, t[2])
                    if r and r[0] == 'class':
                        return r[1].key
            return show(t)
        return show(t)

    def exc_subclass(self, name, hname):
        """is exception class `name` caught by a handler for `hname`?
        names: builtin names or package class keys 'module:Class'.
        returns True / False / None (unknown)"""
        if name is None or hname is None:
            return None
        if name == hname:
            return True
        if hname in ('BaseException',):
            return True
        chain = self.exc_bases(name)
        if chain is None:
            return None
        if hname in chain:
            return True
        return False

    def exc_bases(self, name):
        """all (transitive) base names of exception class `name`"""
        if ':' in name:
            ci = self.repo.cls(name, required=False)
            if ci is None:
                return None
            out = []
            for c in self.repo.mro(ci):
                out.append(c.key)
                for b in self.repo.class_bases(c):
                    if b[0] == 'ext':
                        bn = b[1]
                        sub = self.exc_bases(bn)
                        if sub is None:
                            return None
                        out.extend(sub)
            return out
        cls = getattr(builtins, name, None)
        if isinstance(cls, type) and issubclass(cls, BaseException):
            return [c.__name__ for c in cls.__mro__ if c is not object]
        return None

    def x_Try(self, node, st, fctx):
        out_states = []
        # run the body statement by statement, forking an implicit-exception
        # edge to every handler before each statement that can raise
        states = [st]
        raised = []     # states leaving the body by exception
        for stmt in node.body:
            nxt = []
            for s in states:
                if s.status != 'run':
                    nxt.append(s)
                    continue
                nx = _next_call(stmt)
                nx_it = None
                if self.policy.try_forks and node.handlers and _may_raise(stmt):
                    for hi, h in enumerate(node.handlers):
                        f = s.fork()
                        hts = self._handler_types(h, f, fctx)
                        if nx is not None and 'StopIteration' in hts:
                            # next(it) without default: the StopIteration edge
                            # is the atom exhausted(it)
                            nx_it = self.ev(nx.args[0], f, fctx)
                            f.add_lit(('exhausted', nx_it), True)
                        else:
                            f.add_lit(('raises', (stmt.lineno,) + tuple(fctx[1]), '|'.join(str(x) for x in hts)), True)
                        f.status = 'raise'
                        f.value = ('IMPLICIT', hi, tuple(hts), stmt.lineno)
                        raised.append(f)
                if nx_it is not None:
                    s.add_lit(('exhausted', nx_it), False)
                nxt.extend(self.exec_stmt(stmt, s, fctx))
            states = nxt
        normal = []
        for s in states:
            if s.status == 'raise':
                raised.append(s)
            else:
                normal.append(s)
        # handlers
        after = []
        for s in raised:
            handled = False
            v = s.value
            for hi, h in enumerate(node.handlers):
                if v is not None and v[0] == 'IMPLICIT':
                    match = (v[1] == hi)
                else:
                    hts = self._handler_types(h, s, fctx)
                    en = self._exc_name(v)
                    res = [self.exc_subclass(en, ht) for ht in hts]
                    if any(r is True for r in res):
                        match = True
                    elif all(r is False for r in res):
                        match = False
                    else:
                        match = False   # unknown relation: treat as not caught (propagates)
                if match:
                    s.status = 'run'
                    exc_t = v if (v is not None and v[0] != 'IMPLICIT') else ('EXC', tuple(self._handler_types(h, s, fctx)))
                    s.value = None
                    s.env.vars['__exc__'] = exc_t
                    if h.name:
                        s.env.vars[h.name] = exc_t
                    s.effects.append(Effect('handler', target=exc_t, node=h))
                    after.extend(self.exec_block(h.body, s, fctx))
                    handled = True
                    break
            if not handled:
                if v is not None and v[0] == 'IMPLICIT':
                    continue
                after.append(s)
        for s in normal:
            if s.status == 'run':
                after.extend(self.exec_block(node.orelse, s, fctx))
            else:
                after.append(s)
        if node.finalbody:
            fin = []
            for s in after:
                status, value = s.status, s.value
                s.status = 'run'
                for s2 in self.exec_block(node.finalbody, s, fctx):
                    if s2.status == 'run':
                        s2.status, s2.value = status, value
                    fin.append(s2)
            after = fin
        return after

    x_TryStar = x_Try

    def x_Match(self, node, st, fctx):
        raise Inconclusive('match statement not modelled (%s)' % fctx[0].loc(node))

    # ------------------------------------------------------------ conditions
    def cond(self, expr, st, fctx):
        """evaluate a condition, forking on unknown atoms.
        returns list of (state, bool)"""
        if isinstance(expr, ast.BoolOp):
            is_and = isinstance(expr.op, ast.And)
            results = [(st, is_and)]
            for v in expr.values:
                new = []
                for s, b in results:
                    if b != is_and:     # short-circuited
                        new.append((s, b))
                    else:
                        new.extend(self.cond(v, s, fctx))
                results = new
            return results
        if isinstance(expr, ast.UnaryOp) and isinstance(expr.op, ast.Not):
            return [(s, not b) for s, b in self.cond(expr.operand, st, fctx)]
        if isinstance(expr, ast.Compare) and len(expr.ops) > 1:
            # a < b < c : conjunction
            parts = []
            left = expr.left
            for op, right in zip(expr.ops, expr.comparators):
                parts.append(ast.Compare(left=left, ops=[op], comparators=[right]))
                left = right
            for p in parts:
                ast.copy_location(p, expr)
            return self.cond(ast.BoolOp(op=ast.And(), values=parts), st, fctx)
        if isinstance(expr, ast.NamedExpr):
            t = self.ev(expr.value, st, fctx)
            self.assign(expr.target, t, st, fctx, expr)
            a = self._truthy_atom(t)
        else:
            a = self.atom(expr, st, fctx)
        return self._decide(a, st)

    def _decide(self, a, st):
        if a[0] == 'const':
            return [(st, bool(a[1]))]
        if a[0] == 'lit':
            atom, pol = a[1], a[2]
            if atom in st.memo:
                return [(st, st.memo[atom] == pol)]
            self.n_forks += 1
            t = st
            f = st.fork()
            t.add_lit(atom, pol)
            f.add_lit(atom, not pol)
            return [(t, True), (f, False)]
        if a[0] in ('and', 'or'):
            is_and = a[0] == 'and'
            results = [(st, is_and)]
            for sub in a[1]:
                new = []
                for s, b in results:
                    if b != is_and:
                        new.append((s, b))
                    else:
                        new.extend(self._decide(sub, s))
                results = new
            return results
        if a[0] == 'not':
            return [(s, not b) for s, b in self._decide(a[1], st)]
        raise AssertionError(a)

    def _truthy_atom(self, t):
        """condition tree for the truthiness of term t"""
        if t[0] == 'K':
            return ('const', bool(t[1]))
        if t[0] == 'T':
            return ('const', bool(t[1]))
        if t[0] == 'B' and t[1] in ('and', 'or'):
            return (t[1], [self._truthy_atom(t[2]), self._truthy_atom(t[3])])
        if t[0] == 'U' and t[1] == 'not':
            return ('not', self._truthy_atom(t[2]))
        if t[0] == 'COND':
            return t[1]
        if t[0] in ('FN', 'CLS', 'CLOSURE', 'LAMBDA', 'MOD', 'O'):
            return ('const', True)
        return ('lit', ('truthy', t), True)

    def atom(self, expr, st, fctx):
        """normalise a non-boolean-operator condition to a condition tree"""
        if isinstance(expr, ast.Constant):
            return ('const', bool(expr.value))
        if isinstance(expr, ast.Compare):
            vi = _version_compare(expr)
            if vi is not None:
                return ('const', vi)
            op = expr.ops[0]
            l = self.ev(expr.left, st, fctx)
            r = self.ev(expr.comparators[0], st, fctx)
            return self.compare_atom(op, l, r)
        if isinstance(expr, ast.Call) and isinstance(expr.func, ast.Name) and expr.func.id == 'isinstance' \
                and len(expr.args) == 2 and st.env.get('isinstance') is None:
            x = self.ev(expr.args[0], st, fctx)
            ty = self.ev(expr.args[1], st, fctx)
            tt = self._type_text(ty)
            if x == NONE and 'NoneType' not in tt and tt not in ('object', 'None'):
                return ('const', False)      # isinstance(None, <some class>) is False
            return ('lit', ('isinstance', x, tt), True)
        t = self.ev(expr, st, fctx)
        return self._truthy_atom(t)

    def _type_text(self, ty):
        if ty[0] == 'T':
            return '|'.join(sorted(self._type_text(x) for x in ty[1]))
        if ty[0] == 'L':
            init = self.obj_init.get(ty)
            if init is not None and init[0] == 'T':
                return '|'.join(sorted(self._type_text(x) for x in init[1]))
        n = self._exc_name(ty)
        return str(n)

    def compare_atom(self, op, l, r):
        neg = isinstance(op, (ast.NotEq, ast.IsNot, ast.NotIn))
        if isinstance(op, (ast.Eq, ast.NotEq, ast.Is, ast.IsNot)):
            # x.default ==/is x.empty  ->  not has_default(x)
            for a, b in ((l, r), (r, l)):
                if a[0] == 'A' and a[2] in ('default', 'annotation') and b[0] == 'A' and b[2] == 'empty':
                    name = 'has_default' if a[2] == 'default' else 'has_annotation'
                    return ('lit', (name, a[1]), neg)
                if a[0] == 'A' and a[2] in ('default', 'annotation', 'return_annotation') and b[0] == 'A' and b[2] == '_empty':
                    name = 'has_default' if a[2] == 'default' else 'has_annotation'
                    return ('lit', (name, a[1]), neg)
            if isinstance(op, (ast.Is, ast.IsNot)):
                for a, b in ((l, r), (r, l)):
                    if b == NONE and a[0] == 'N' and self.next_default.get(a) == NONE:
                        # `x = next(it, None)` ... `x is None`: the iterator was exhausted (its elements are objects, not None)
                        return ('lit', ('exhausted', a[1]), not neg)
                    if b == NONE:
                        if a[0] == 'K':
                            return ('const', (a[1] is None) != neg)
                        return ('lit', ('isnone', a), not neg)
                if l[0] == 'K' and r[0] == 'K':
                    return ('const', (l[1] is r[1]) != neg)
                a, b = sorted((l, r), key=repr)
                return ('lit', ('is', a, b), not neg)
            if l[0] == 'K' and r[0] == 'K':
                return ('const', (l[1] == r[1]) != neg)
            if l == r:
                return ('const', not neg)
            a, b = sorted((l, r), key=repr)
            return ('lit', ('eq', a, b), not neg)
        if isinstance(op, (ast.In, ast.NotIn)):
            return ('lit', ('in', l, r), not neg)
        opn = {ast.Lt: '<', ast.LtE: '<=', ast.Gt: '>', ast.GtE: '>='}.get(type(op), type(op).__name__)
        # normalise  a > b  as  b < a ; a >= b as b <= a
        if opn == '>':
            return ('lit', ('cmp', '<', r, l), True)
        if opn == '>=':
            return ('lit', ('cmp', '<=', r, l), True)
        return ('lit', ('cmp', opn, l, r), True)

    # ----------------------------------------------------------- expressions
    def ev_slice(self, node, st, fctx):
        if isinstance(node, ast.Slice):
            lo = self.ev(node.lower, st, fctx) if node.lower else NONE
            hi = self.ev(node.upper, st, fctx) if node.upper else NONE
            return ('SLICE', lo, hi)
        return self.ev(node, st, fctx)

    def ev(self, node, st, fctx):
        meth = getattr(self, 'e_' + type(node).__name__, None)
        if meth is None:
            return ('TOP', 'expr ' + type(node).__name__)
        return meth(node, st, fctx)

    def e_Constant(self, node, st, fctx):
        return K(node.value)

    def e_Name(self, node, st, fctx):
        v = st.env.get(node.id)
        if v is not None:
            return v
        return self.global_term(fctx[0], node.id)

    def global_term(self, fi, name):
        # enclosing function locals are not tracked for non-inlined closures
        p = fi.parent
        while p is not None:
            if _binds_local(p.node, name):
                return ('FREE', p.key, name)
            p = p.parent
        r = self.repo.resolve_global(fi.module, name)
        if r is None:
            if hasattr(builtins, name):
                return ('BI', name)
            return ('GLOB', fi.module.name, name)
        if r[0] == 'value':
            return ('GLOB', r[2].name, name)
        return self._resolved_to_term(r, name)

    def e_Attribute(self, node, st, fctx):
        base = self.ev(node.value, st, fctx)
        key = (base, node.attr)
        if key in st.heap:
            return st.heap[key]
        if base[0] == 'MOD':
            m = self.repo.modules.get(base[1])
            if m is not None:
                r = self.repo.resolve_global(m, node.attr)
                if r is not None:
                    if r[0] == 'value':
                        return ('GLOB', r[2].name, node.attr)
                    return self._resolved_to_term(r, '%s.%s' % (base[1], node.attr))
        if base[0] == 'EXT':
            return ('EXT', '%s.%s' % (base[1], node.attr))
        return ('A', base, node.attr)

    def e_Subscript(self, node, st, fctx):
        base = self.ev(node.value, st, fctx)
        if isinstance(node.slice, ast.Slice):
            lo = self.ev(node.slice.lower, st, fctx) if node.slice.lower else NONE
            hi = self.ev(node.slice.upper, st, fctx) if node.slice.upper else NONE
            if base[0] == 'T' and lo[0] == 'K' and hi[0] == 'K' and node.slice.step is None:
                return ('T', base[1][lo[1]:hi[1]])
            return ('SL', base, lo, hi)
        key = self.ev(node.slice, st, fctx)
        if base[0] == 'T' and key[0] == 'K' and isinstance(key[1], int) and -len(base[1]) <= key[1] < len(base[1]):
            return base[1][key[1]]
        if isinstance(node.value, (ast.List, ast.Tuple)) and base[0] == 'L' and key[0] == 'K' and isinstance(key[1], int):
            # subscript of a list display written in place: `[None][0]`
            init = self.obj_init.get(base)
            if init is not None and init[0] == 'T' and -len(init[1]) <= key[1] < len(init[1]) and \
                    not any(x[0] == 'STAR' for x in init[1]):
                return init[1][key[1]]
        return ('S', base, key)

    def e_Tuple(self, node, st, fctx):
        items = []
        for e in node.elts:
            if isinstance(e, ast.Starred):
                v = self.ev(e.value, st, fctx)
                if v[0] == 'T':
                    items.extend(v[1])
                else:
                    items.append(('STAR', v))
            else:
                items.append(self.ev(e, st, fctx))
        return ('T', tuple(items))

    def _oid(self, node, fctx):
        return (node.lineno, node.col_offset) + tuple(fctx[1])

    def e_List(self, node, st, fctx):
        items = self.e_Tuple(node, st, fctx)
        obj = ('L', self._oid(node, fctx))
        self.obj_init[obj] = items
        st.effects.append(Effect('new', target=obj, args=(items,), node=node))
        return obj

    def e_Set(self, node, st, fctx):
        items = self.e_Tuple(node, st, fctx)
        obj = ('SET', self._oid(node, fctx))
        self.obj_init[obj] = items
        st.effects.append(Effect('new', target=obj, args=(items,), node=node))
        return obj

    def e_Dict(self, node, st, fctx):
        items = []
        for k, v in zip(node.keys, node.values):
            if k is None:
                items.append(('DSTAR', self.ev(v, st, fctx)))
            else:
                items.append(('T', (self.ev(k, st, fctx), self.ev(v, st, fctx))))
        items = ('T', tuple(items))
        obj = ('D', self._oid(node, fctx))
        self.obj_init[obj] = items
        st.effects.append(Effect('new', target=obj, args=(items,), node=node))
        return obj

    def e_BoolOp(self, node, st, fctx):
        op = 'and' if isinstance(node.op, ast.And) else 'or'
        vals = [self.ev(v, st, fctx) for v in node.values]
        t = vals[-1]
        for v in reversed(vals[:-1]):
            t = ('B', op, v, t)
        return t

    def e_UnaryOp(self, node, st, fctx):
        v = self.ev(node.operand, st, fctx)
        opn = {ast.Not: 'not', ast.USub: '-', ast.UAdd: '+', ast.Invert: '~'}[type(node.op)]
        if v[0] == 'K' and opn == '-' and isinstance(v[1], (int, float)):
            return K(-v[1])
        if v[0] == 'K' and opn == 'not':
            return K(not v[1])
        return ('U', opn, v)

    def e_BinOp(self, node, st, fctx):
        l = self.ev(node.left, st, fctx)
        r = self.ev(node.right, st, fctx)
        op = type(node.op).__name__
        if op == 'Add' and l[0] == 'T' and r[0] == 'T':
            return ('T', l[1] + r[1])
        return ('B', op, l, r)

    def e_Compare(self, node, st, fctx):
        a = self.atom(node, st, fctx) if len(node.ops) == 1 else None
        if a is None:
            return ('TOP', 'chained compare')
        if a[0] == 'const':
            return K(a[1])
        return ('COND', a)

    def e_IfExp(self, node, st, fctx):
        # value-level conditional: no fork, keep the condition tree
        c = self.cond_tree(node.test, st, fctx)
        a = self.ev(node.body, st, fctx)
        b = self.ev(node.orelse, st, fctx)
        if c[0] == 'const':
            return a if c[1] else b
        return ('IF', c, a, b)

    def cond_tree(self, expr, st, fctx):
        """condition tree without forking"""
        if isinstance(expr, ast.BoolOp):
            return ('and' if isinstance(expr.op, ast.And) else 'or',
                    [self.cond_tree(v, st, fctx) for v in expr.values])
        if isinstance(expr, ast.UnaryOp) and isinstance(expr.op, ast.Not):
            sub = self.cond_tree(expr.operand, st, fctx)
            if sub[0] == 'lit':
                return ('lit', sub[1], not sub[2])
            if sub[0] == 'const':
                return ('const', not sub[1])
            return ('not', sub)
        a = self.atom(expr, st, fctx)
        if a[0] == 'lit' and a[1] in st.memo:
            return ('const', st.memo[a[1]] == a[2])
        return a

    def e_Lambda(self, node, st, fctx):
        return ('LAMBDA', (node.lineno, node.col_offset))

    def e_JoinedStr(self, node, st, fctx):
        return ('TOP', 'fstring')

    def e_Starred(self, node, st, fctx):
        return ('STAR', self.ev(node.value, st, fctx))

    def e_NamedExpr(self, node, st, fctx):
        t = self.ev(node.value, st, fctx)
        self.assign(node.target, t, st, fctx, node)
        return t

    def e_Yield(self, node, st, fctx):
        t = self.ev(node.value, st, fctx) if node.value is not None else NONE
        st.effects.append(Effect('yield', target=t, node=node))
        return ('TOP', 'sent')

    def e_Await(self, node, st, fctx):
        return self.ev(node.value, st, fctx)

    def _comp(self, node, kind, elt_nodes, st, fctx):
        sub = st.fork()
        gens = []
        gid = self._oid(node, fctx)
        expand = None
        for gi, g in enumerate(node.generators):
            it = self.ev(g.iter, sub, fctx)
            lid = gid + (gi,)
            self.loopinfo[lid] = ('comp', it, node)
            if gi == 0 and len(node.generators) == 1 and it[0] == 'T' and not g.ifs and len(it[1]) <= 6:
                expand = (g, it)
                break
            el = ('E', it, lid)
            self.assign(g.target, el, sub, fctx, node)
            conds = tuple(self.cond_tree(c, sub, fctx) for c in g.ifs)
            gens.append((it, conds, lid))
        if expand is not None:
            g, it = expand
            outs = []
            for x in it[1]:
                self.assign(g.target, x, sub, fctx, node)
                vals = tuple(self.ev(e, sub, fctx) for e in elt_nodes)
                outs.append(vals[0] if len(vals) == 1 else ('T', vals))
            # effects of the element expressions (mutator calls) are kept
            st.effects.extend(sub.effects[len(st.effects):])
            return ('T', tuple(outs)), True
        vals = tuple(self.ev(e, sub, fctx) for e in elt_nodes)
        elt = vals[0] if len(vals) == 1 else ('T', vals)
        st.effects.extend(sub.effects[len(st.effects):])
        return ('G', kind, elt, tuple(gens), gid), False

    def e_ListComp(self, node, st, fctx):
        g, expanded = self._comp(node, 'list', [node.elt], st, fctx)
        obj = ('L', self._oid(node, fctx))
        self.obj_init[obj] = g
        st.effects.append(Effect('new', target=obj, args=(g,), node=node))
        return obj

    def e_SetComp(self, node, st, fctx):
        g, expanded = self._comp(node, 'set', [node.elt], st, fctx)
        obj = ('SET', self._oid(node, fctx))
        self.obj_init[obj] = g
        st.effects.append(Effect('new', target=obj, args=(g,), node=node))
        return obj

    def e_DictComp(self, node, st, fctx):
        g, expanded = self._comp(node, 'dict', [node.key, node.value], st, fctx)
        obj = ('D', self._oid(node, fctx))
        self.obj_init[obj] = g
        st.effects.append(Effect('new', target=obj, args=(g,), node=node))
        return obj

    def e_GeneratorExp(self, node, st, fctx):
        g, expanded = self._comp(node, 'gen', [node.elt], st, fctx)
        return g

    # -- calls ------------------------------------------------------------
    def _eval_args(self, node, st, fctx):
        args = []
        for a in node.args:
            if isinstance(a, ast.Starred):
                v = self.ev(a.value, st, fctx)
                if v[0] == 'T':
                    args.extend(v[1])
                else:
                    args.append(('STAR', v))
            else:
                args.append(self.ev(a, st, fctx))
        kws = []
        for kw in node.keywords:
            kws.append((kw.arg, self.ev(kw.value, st, fctx)))
        return tuple(args), tuple(kws)

    def resolve_callee(self, ft, st):
        """ft: term of the called expression.
        returns ('func', FuncInfo, self_term|None) | ('class', ClassInfo) | ('closure', FuncInfo)
              | ('ext', dotted) | ('method', base, name) | None"""
        k = ft[0]
        if k == 'FN':
            return ('func', self.repo.func(ft[1]), None)
        if k == 'CLS':
            return ('class', self.repo.cls(ft[1]))
        if k == 'CLOSURE':
            fi = self.repo.func(ft[1], required=False)
            if fi is not None:
                return ('closure', fi)
            return None
        if k in ('EXT', 'BI'):
            return ('ext', ft[1])
        if k == 'A':
            base, name = ft[1], ft[2]
            ci = self.obj_class.get(base)
            if ci is None and base[0] == 'O':
                ci = self.repo.cls(base[1], required=False)
            if ci is not None:
                m = self.repo.lookup_method(ci, name)
                if m is not None:
                    return ('func', m, base)
            if base[0] == 'CLS':
                ci = self.repo.cls(base[1], required=False)
                if ci is not None:
                    m = self.repo.lookup_method(ci, name)
                    if m is not None:
                        if m.is_classmethod():
                            return ('func', m, base)
                        return ('func', m, None)
            if base[0] == 'C' and base[1] == 'super':
                # super().m / super(X, self).m
                return ('method', base, name)
            return ('method', base, name)
        return None

    def e_Call(self, node, st, fctx):
        """a call nested inside an expression: never inlined"""
        return self._call(node, st, fctx, allow_inline=False)[0][1]

    def call_stmt(self, node, st, fctx):
        """a call whose value is the whole statement value: may be inlined.
        returns list of (state, result term)"""
        return self._call(node, st, fctx, allow_inline=True)

    def _call(self, node, st, fctx, allow_inline):
        # super() special form
        ft = self.ev(node.func, st, fctx)
        args, kws = self._eval_args(node, st, fctx)
        r = self.resolve_callee(ft, st)
        if r is None:
            self.unresolved.append(node)
            res = ('C', ft, args, kws)
            st.effects.append(Effect('call', target=ft, op=show(ft), args=args, kws=kws, node=node, result=res, extra='unresolved'))
            return [(st, res)]
        self.resolved += 1
        kind = r[0]
        if kind == 'ext':
            name = r[1]
            return [(st, self._ext_call(name, args, kws, node, st, fctx))]
        if kind == 'method':
            base, meth = r[1], r[2]
            res = ('M', base, meth, args, kws)
            if meth in MUTATORS:
                st.effects.append(Effect('mut', target=base, op=meth, args=args, kws=kws, node=node, result=res))
                st.invalidate(base)
            else:
                st.effects.append(Effect('call', target=base, op='.' + meth, args=args, kws=kws, node=node, result=res, extra='method'))
            return [(st, res)]
        if kind == 'class':
            ci = r[1]
            obj = ('O', ci.key, self._oid(node, fctx))
            self.obj_class[obj] = ci
            init = self.repo.lookup_method(ci, '__init__')
            if init is not None:
                args, kws = self._canon_call(init, 1, args, kws)
            st.effects.append(Effect('call', target=('CLS', ci.key), op=ci.key, args=args, kws=kws, node=node, result=obj, extra='new'))
            if init is not None and allow_inline and self.policy.inline(init, len(fctx[1]), node):
                out = []
                for s, _ in self._inline(init, obj, args, kws, node, st, fctx):
                    out.append((s, obj))
                return out
            return [(st, obj)]
        if kind in ('func', 'closure'):
            fi = r[1]
            selft = r[2] if kind == 'func' else None
            args, kws = self._canon_call(fi, 1 if selft is not None else 0, args, kws)
            res = ('C', fi.key, ((selft,) if selft is not None else ()) + args, kws)
            if allow_inline and fi not in self.stack and not _is_generator(fi.node) \
                    and self.policy.inline(fi, len(fctx[1]), node):
                inl = self._inline(fi, selft, args, kws, node, st, fctx, closure=(kind == 'closure'))
                if inl is not None:
                    return inl
            st.effects.append(Effect('call', target=('FN', fi.key), op=fi.key, args=((selft,) if selft is not None else ()) + args,
                                     kws=kws, node=node, result=res, extra='package'))
            return [(st, res)]
        raise AssertionError(r)

    def _canon_call(self, fi, offset, args, kws):
        """one spelling for a call of a package function: arguments passed by keyword that continue the positional ones without
        a gap are moved to their positions (`f(a, b=1)` is `f(a, 1)` when b is f's second parameter).  The argument terms are
        already evaluated, so nothing about evaluation order changes."""
        if not kws or any(x[0] == 'STAR' for x in args) or any(n is None for n, _ in kws):
            return args, kws
        pos = fi.params()[0]
        posonly = len(fi.node.args.posonlyargs)
        kwd = dict(kws)
        out = list(args)
        i = offset + len(out)
        while i < len(pos) and i >= posonly and pos[i] in kwd:
            out.append(kwd.pop(pos[i]))
            i += 1
        if len(out) == len(args):
            return args, kws
        return tuple(out), tuple((n, v) for n, v in kws if n in kwd)

    def _ext_call(self, name, args, kws, node, st, fctx):
        res = ('C', name, args, kws)
        if name == 'iter' and len(args) == 1:
            res = ('IT', args[0], self._oid(node, fctx))
            return res
        if name == 'next' and args:
            res = ('N', args[0], self._oid(node, fctx))
            if len(args) > 1:
                self.next_default[res] = args[1]
            st.effects.append(Effect('call', target=('BI', 'next'), op='next', args=args, kws=kws, node=node, result=res, extra='ext'))
            return res
        if name in ('list', 'dict', 'set', 'tuple', 'frozenset', 'collections.OrderedDict', 'OrderedDict', 'sorted', 'reversed'):
            if name == 'tuple' and len(args) == 1 and args[0][0] == 'T':
                return args[0]
            kindc = {'list': 'L', 'sorted': 'L', 'dict': 'D', 'collections.OrderedDict': 'D', 'OrderedDict': 'D', 'set': 'SET'}.get(name)
            if kindc is not None:
                obj = (kindc, self._oid(node, fctx))
                init = ('C', name, args, kws)
                self.obj_init[obj] = init
                st.effects.append(Effect('new', target=obj, args=(init,), node=node))
                return obj
            return res
        if name in ('setattr', 'delattr') and len(args) >= 2:
            attr = args[1]
            st.effects.append(Effect('store_attr' if name == 'setattr' else 'del_attr', target=args[0],
                                     op=attr[1] if attr[0] == 'K' else attr,
                                     args=args[2:], node=node, extra='dynamic'))
            st.invalidate(args[0])
            return NONE
        st.effects.append(Effect('call', target=('EXT', name), op=name, args=args, kws=kws, node=node, result=res, extra='ext'))
        return res

    def bind_args(self, fi, selft, args, kws, st, fctx, closure=False):
        pos, vararg, kwonly, kwarg = fi.params()
        a = fi.node.args
        env = {}
        args = list(args)
        if selft is not None:
            args = [selft] + args
        if any(x[0] == 'STAR' for x in args):
            return None
        if any(n is None for n, _ in kws):
            return None
        npos = len(pos)
        for i, name in enumerate(pos):
            if i < len(args):
                env[name] = args[i]
        if len(args) > npos:
            if vararg is None:
                return None
            env[vararg] = ('T', tuple(args[npos:]))
        elif vararg is not None:
            env[vararg] = ('T', ())
        extra = []
        for n, v in kws:
            if n in pos or n in kwonly:
                if n in env:
                    return None
                env[n] = v
            else:
                extra.append((n, v))
        if extra:
            if kwarg is None:
                return None
            obj = ('D', ('kwargs', fi.key) + tuple(fctx[1]))
            self.obj_init[obj] = ('T', tuple(('T', (K(n), v)) for n, v in extra))
            env[kwarg] = obj
        elif kwarg is not None:
            obj = ('D', ('kwargs', fi.key) + tuple(fctx[1]))
            self.obj_init[obj] = ('T', ())
            env[kwarg] = obj
        # defaults
        defaults = a.defaults
        pos_all = a.posonlyargs + a.args
        for i, d in enumerate(defaults):
            name = pos_all[len(pos_all) - len(defaults) + i].arg
            if name not in env:
                env[name] = self._default_term(d, fi)
        for arg, d in zip(a.kwonlyargs, a.kw_defaults):
            if arg.arg not in env:
                if d is None:
                    return None
                env[arg.arg] = self._default_term(d, fi)
        for name in pos:
            if name not in env:
                return None
        return env

    def _default_term(self, d, fi):
        st = State()
        t = self.ev(d, st, (fi, ('default',)))
        if t[0] in ('L', 'D', 'SET'):
            return ('SHARED_DEFAULT', fi.key, t)
        return t

    def _inline(self, fi, selft, args, kws, node, st, fctx, closure=False):
        env = self.bind_args(fi, selft, args, kws, st, fctx, closure)
        if env is None:
            return None
        callee_ctx = (fi, tuple(fctx[1]) + ((node.lineno, node.col_offset),))
        saved_env = st.env
        st.env = Env(env, st.env if closure else None)
        if selft is not None and fi.cls is not None and selft not in self.obj_class:
            self.obj_class[selft] = fi.cls
        st.effects.append(Effect('inline', target=('FN', fi.key), op=fi.key, node=node, extra='enter'))
        self.stack.append(fi)
        try:
            outs = self.exec_block(fi.node.body, st, callee_ctx)
        finally:
            self.stack.pop()
        res = []
        for s in outs:
            s.env = Env(dict(saved_env.vars), saved_env.outer) if s is not st else saved_env
            if s.status == 'return':
                v = s.value
                s.status = 'run'
                s.value = None
                # drop the callee's return effect marker but keep a trace
                s.effects.append(Effect('inline', target=('FN', fi.key), op=fi.key, node=node, extra='exit', result=v))
                res.append((s, v))
            elif s.status == 'run':
                s.effects.append(Effect('inline', target=('FN', fi.key), op=fi.key, node=node, extra='exit', result=NONE))
                res.append((s, NONE))
            else:
                res.append((s, None))
        return res


def _walk_effects(effects):
    for e in effects:
        yield e
        if e.kind == 'loop':
            for sp in e.sub:
                for x in _walk_effects(sp.effects):
                    yield x


def walk_effects(effects, lits=()):
    """yield (effect, guard literals) including effects nested in loop regions"""
    for e in effects:
        yield e, tuple(lits)
        if e.kind == 'loop':
            for sp in e.sub:
                for x in walk_effects(sp.effects, tuple(lits) + tuple(sp.lits)):
                    yield x


def _may_raise(stmt):
    for n in ast.walk(stmt):
        if isinstance(n, (ast.Call, ast.Subscript, ast.Attribute, ast.Raise, ast.Delete, ast.BinOp)):
            return True
        if isinstance(n, ast.Name) and isinstance(n.ctx, ast.Load) and isinstance(stmt, ast.Expr) and stmt.value is n:
            return True   # bare name statement used as a NameError probe
    return False


def _next_call(stmt):
    """`x = next(it)` / `next(it)` without default as the whole statement"""
    v = getattr(stmt, 'value', None)
    if isinstance(stmt, (ast.Assign, ast.Expr, ast.Return)) and isinstance(v, ast.Call) \
            and isinstance(v.func, ast.Name) and v.func.id == 'next' and len(v.args) == 1 and not v.keywords:
        return v
    return None


def _is_generator(fnode):
    for n in ast.walk(fnode):
        if isinstance(n, (ast.Yield, ast.YieldFrom)):
            # ignore yields of nested functions
            p = getattr(n, '_parent', None)
            while p is not None and p is not fnode:
                if isinstance(p, (ast.FunctionDef, ast.AsyncFunctionDef, ast.Lambda)):
                    break
                p = getattr(p, '_parent', None)
            if p is fnode:
                return True
    return False


def _binds_local(fnode, name):
    a = fnode.args
    for x in a.posonlyargs + a.args + a.kwonlyargs + [y for y in (a.vararg, a.kwarg) if y]:
        if x.arg == name:
            return True
    for n in ast.walk(fnode):
        if isinstance(n, ast.Name) and n.id == name and isinstance(n.ctx, ast.Store):
            return True
        if isinstance(n, (ast.FunctionDef, ast.AsyncFunctionDef, ast.ClassDef)) and n is not fnode and n.name == name:
            return True
    return False


def _version_compare(expr):
    """sys.version_info comparisons are folded against the interpreter that
    runs the checker (the repository's own interpreter)"""
    txt = norm(expr)
    if 'sys.version_info' not in txt:
        return None
    try:
        for n in ast.walk(expr):
            if isinstance(n, ast.Name) and n.id != 'sys':
                return None
            if isinstance(n, ast.Call):
                return None
        return bool(eval(compile(ast.Expression(body=expr), '<version>', 'eval'), {'sys': sys, '__builtins__': {}}))
    except Exception:
        return None
