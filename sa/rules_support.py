"""support helpers (C20): bind_callsig table (B15), sort_callsigs, make_up_callsigs bounds."""
import ast

from .index import Inconclusive, norm
from .interp import Interp, Policy, show, show_lit, walk_effects, K, NONE, subterms, mentions
from .algebra import kind_of_attr_term

SUP = 'support'


def site_of(fi, node):
    return '%s %s' % (fi.loc(node), fi.key)


def rule_make_up_bounds(check, rule):
    repo = check.repo
    fi = repo.func(SUP + ':make_up_callsigs')
    check.analysed(fi)
    it = Interp(repo, Policy())
    paths = it.run(fi)
    check.absorb(it)
    n = 0
    seen = set()
    for p in paths:
        if p.status != 'return':
            continue
        n += 1
        v = p.value
        init = it.obj_init.get(v)
        st = site_of(fi, fi.node)
        gtext = ' & '.join(show_lit(l) for l in p.lits)[:160]
        key = 'make_up_callsigs|%s' % gtext
        if not (init is not None and init[0] == 'C' and init[1] == 'list' and init[2] and init[2][0][0] == 'C' and str(init[2][0][1]).endswith('product')
                and len(init[2][0][2]) == 2):
            check.violation(rule, st, 'the result is %s, not the full product of positional prefixes and keyword subsets' % show(init if init else v)[:100],
                            key=key, witness='make_up_callsigs must contain every prefix combined with every keyword subset')
            continue
        args_l, kw_l = init[2][0][2]
        names = None
        ga = it.obj_init.get(args_l)
        gk = it.obj_init.get(kw_l)
        problems = []
        unknown_pref = False
        # positional prefixes: names[:i] for i in range(len(names) + 1)
        if ga is not None and ga[0] == 'G' and len(ga[3]) == 1:
            src = ga[3][0][0]
            if src[0] == 'C' and src[1] == 'range' and len(src[2]) == 1 and src[2][0][0] == 'B' and src[2][0][1] == 'Add' and src[2][0][3] == K(1) \
                    and src[2][0][2][0] == 'C' and src[2][0][2][1] == 'len':
                names = src[2][0][2][2][0]
            else:
                problems.append('positional prefixes range over %s, expected 0..len(names) inclusive' % show(src)[:60])
        else:
            unknown_pref = True
        # ... over the list that already holds the made-up surplus names (`extra`): the loop appending them must come before
        # the prefixes are taken, or no call with surplus positionals is ever generated
        if names is not None:
            extra_p = [('P', x) for x in (fi.params()[0] + fi.params()[2]) if x == 'extra']
            made_args = [i for i, e in enumerate(p.effects) if e.kind == 'new' and e.target == args_l]
            extra_loops = [i for i, e in enumerate(p.effects) if e.kind == 'loop' and e.target[0] == 'C' and e.target[1] == 'range'
                           and extra_p and extra_p[0] in e.target[2]
                           and any(x.kind == 'mut' and x.target == names and x.op in ('append', 'extend', 'insert') for sp in e.sub for x in sp.effects)]
            if extra_p and made_args and extra_loops and made_args[0] < extra_loops[0]:
                problems.append('the positional prefixes are taken before the made-up surplus names (extra) are appended to the list: no call with '
                                'more positionals than parameters is generated')
            elif extra_p and made_args and not extra_loops:
                problems.append('the made-up surplus names (extra) are never appended to the list the positional prefixes are taken from')
        # the star parameters can be named by keyword too (the keyword lands in **kwargs): their names join the list when present
        if names is not None:
            for atom, pol in p.lits:
                if atom[0] == 'truthy' and pol and atom[1][0] == 'S' and atom[1][2] in (K(2), K(4)) and atom[1][1][0] == 'C' \
                        and str(atom[1][1][1]).endswith('sort_params'):
                    star = atom[1]
                    added = [e for e in p.effects if e.kind == 'mut' and e.target == names and e.op in ('append', 'extend', 'insert')
                             and any(a_ == ('A', star, 'name') for a_ in e.args)]
                    if not added:
                        problems.append('the name of the %s parameter is not added to the names the keyword subsets are drawn from'
                                        % ('*args' if atom[1][2] == K(2) else '**kwargs'))
        # keyword subsets: combinations(names, i) for i in range(len(names) + 1)
        rng = None
        if gk is not None:
            for s in subterms(gk):
                if s[0] == 'C' and str(s[1]).endswith('combinations') and len(s[2]) == 2:
                    size = s[2][1]
                    if size[0] == 'E':
                        rng = size[1]
                    if names is not None and s[2][0] != names:
                        problems.append('keyword subsets are drawn from %s, not from the collected names' % show(s[2][0])[:40])
        unknown = False
        if rng is None:
            unknown = True
        else:
            # the sizes 0..len(names) must be computed over the *final* name list: the len() call feeding
            # the range must come after every append to the list
            ok_shape = rng[0] == 'C' and rng[1] == 'range' and len(rng[2]) == 1 and rng[2][0][0] == 'B' and rng[2][0][1] == 'Add' and rng[2][0][3] == K(1) \
                and rng[2][0][2][0] == 'C' and rng[2][0][2][1] == 'len'
            lens = [i for i, e in enumerate(p.effects) if e.kind == 'call' and e.op == 'len' and names is not None and e.args == (names,)]
            ranges = [i for i, e in enumerate(p.effects) if e.kind == 'call' and e.op == 'range']
            appends = [i for i, e in enumerate(p.effects) if e.kind == 'mut' and e.target == names and e.op in ('append', 'extend', 'insert')]
            if not ok_shape:
                # a hoisted variable: find where the range object was created
                if rng[0] == 'C' and rng[1] == 'range':
                    problems.append('keyword subset sizes range over %s, expected 0..len(names) inclusive' % show(rng)[:60])
            # call results are structural terms: tell the range() of the keyword subsets from an identical
            # one elsewhere by where it sits in the source (inside the comprehension that builds the subsets)
            comp = [e.node for e in p.effects if e.kind == 'new' and e.target == kw_l]
            made = [i for i, e in enumerate(p.effects) if e.kind == 'call' and e.result == rng]
            src_call = _sizes_call_node(fi, comp[0]) if comp and comp[0] is not None else None
            if src_call is not None:
                exact = [i for i in made if p.effects[i].node is src_call]
                if exact:
                    made = exact
            if made and appends and made[0] < max(appends):
                problems.append('the subset sizes 0..len(names) are computed before the star parameter names are appended to the list: the largest '
                                'keyword subsets are never generated')

        if (unknown or unknown_pref) and not problems:
            check.inconclusive(rule, st, 'make_up_callsigs: enumeration of %s not recognised' % ('keyword subsets' if unknown else 'positional prefixes'), key=key)
        elif problems:
            for m_ in problems[:2]:
                check.violation(rule, st, 'make_up_callsigs: %s' % m_, key=key + '|' + m_[:40], guards=gtext,
                                witness="make_up_callsigs(s('a, *args, **kwargs')) must contain the call passing a, args and kwargs all by keyword")
        else:
            check.holds(rule, st, 'prefixes 0..len(names), keyword subsets of every size 0..len(final names), full product', key=key, guards=gtext)
    # over all paths: each star parameter's name is added on some path (a test that never lets it through shows no literal at all)
    star_added = {2: False, 4: False}
    for p in paths:
        for e in p.effects:
            if e.kind == 'mut' and e.op in ('append', 'extend', 'insert'):
                for a_ in e.args:
                    if a_[0] == 'A' and a_[2] == 'name' and a_[1][0] == 'S' and a_[1][2] in (K(2), K(4)) and a_[1][1][0] == 'C' \
                            and str(a_[1][1][1]).endswith('sort_params'):
                        star_added[a_[1][2][1]] = True
    for idx, nm in ((2, '*args'), (4, '**kwargs')):
        key = 'make_up_callsigs|star-name|%d' % idx
        if star_added[idx]:
            check.holds(rule, site_of(fi, fi.node), 'the name of the %s parameter joins the names the keyword subsets are drawn from' % nm, key=key)
        else:
            check.violation(rule, site_of(fi, fi.node), 'the name of the %s parameter never joins the names the keyword subsets are drawn from: the calls '
                            'passing it by keyword (which land in **kwargs) are not generated' % nm, key=key,
                            witness="make_up_callsigs(s('a, *args, **kwargs')) must contain a call with args=... by keyword")
    check.floor(rule, 'returning paths of make_up_callsigs', n, 2)


def _sizes_call_node(fi, comp):
    """the range(...) Call node that feeds `combinations(names, i) for i in <...>` inside comp:
    written inline, or assigned to a local before the comprehension"""
    for n in ast.walk(comp):
        if isinstance(n, ast.comprehension) and any(isinstance(c, ast.Call) and norm(c.func).endswith('combinations') for c in ast.walk(comp)):
            it = n.iter
            if isinstance(it, ast.Call) and norm(it.func) == 'range':
                return it
            if isinstance(it, ast.Name):
                best = None
                for a in ast.walk(fi.node):
                    if isinstance(a, ast.Assign) and any(isinstance(t, ast.Name) and t.id == it.id for t in a.targets) and a.lineno < comp.lineno:
                        if best is None or a.lineno > best.lineno:
                            best = a
                if best is not None and isinstance(best.value, ast.Call) and norm(best.value.func) == 'range':
                    return best.value
    return None


def rule_sort_callsigs(check, rule):
    repo = check.repo
    fi = repo.func(SUP + ':sort_callsigs')
    check.analysed(fi)
    it = Interp(repo, Policy(try_forks=True))
    paths = it.run(fi)
    check.absorb(it)
    ok_valid = ok_invalid = False
    bad = None
    ret_lists = None
    for p in paths:
        if p.status == 'return' and p.value[0] == 'T' and len(p.value[1]) == 2:
            ret_lists = p.value[1]
    if ret_lists is None:
        check.violation(rule, site_of(fi, fi.node), 'sort_callsigs does not return (valid, invalid)', key='sort_callsigs|return')
        return
    valid, invalid = ret_lists
    for p in paths:
        for e in p.effects:
            if e.kind != 'loop':
                continue
            for sp in e.sub:
                raised = any(a[0] == 'raises' and 'TypeError' in str(a[2]) and pol for a, pol in sp.lits[:1])
                apps = [x for x in sp.effects if x.kind == 'mut' and x.op == 'append' and x.target in (valid, invalid)]
                if raised:
                    if len(apps) == 1 and apps[0].target == invalid:
                        ok_invalid = True
                    else:
                        bad = ('rejected call', apps)
                else:
                    if len(apps) == 1 and apps[0].target == valid and any(s[0] == 'C' and str(s[1]).endswith(':bind_callsig') for s in subterms(apps[0].args[0])):
                        ok_valid = True
                    elif apps and any(a[0] == 'raises' for a, pol in sp.lits):
                        pass
                    else:
                        bad = ('accepted call', apps)
        break
    key = 'sort_callsigs|partition'
    if ok_valid and ok_invalid and bad is None:
        check.holds(rule, site_of(fi, fi.node), 'valid gets (args, kwargs, bound) exactly when bind_callsig returns, invalid gets (args, kwargs) exactly in '
                    'the TypeError handler', key=key)
    else:
        check.violation(rule, site_of(fi, fi.node), 'sort_callsigs does not partition by the outcome of bind_callsig (%s)' % (bad[0] if bad else 'branch missing'),
                        key=key, witness='a call bind_callsig rejects must land in invalid')


def lits_text_(lits):
    return ' & '.join(show_lit(l) for l in lits)


def rule_bind_callsig(check, rule):
    """table B15"""
    repo = check.repo
    fi = repo.func(SUP + ':bind_callsig')
    check.analysed(fi)
    it = Interp(repo, Policy())
    paths = it.run(fi)
    check.absorb(it)
    sigp, argsp, kwp = [('P', x) for x in fi.params()[0][:3]]
    seen = set()
    n = 0
    # collect the loop regions once (they are the same on every top-level path)
    loops = {}
    for p in paths:
        for e in p.effects:
            if e.kind == 'loop' and e.ctx not in loops:
                loops[e.ctx] = e
    pos_loop = kw_loop = fill_loop = None
    for e in loops.values():
        t = show(e.target)
        if e.target[0] == 'C' and str(e.target[1]).split('.')[-1] in ('zip', 'izip'):
            pos_loop = e
        elif e.target[0] == 'M' and e.target[1] == kwp and e.target[2] == 'items':
            kw_loop = e
        elif 'parameters' in t and 'values' in t:
            fill_loop = e
    st = site_of(fi, fi.node)
    if pos_loop is None or kw_loop is None or fill_loop is None:
        raise Inconclusive('bind_callsig: the three binding loops were not recognised')
    # ---- positional binding
    for sp in pos_loop.sub:
        yes = set()
        for a, pol in sp.lits:
            if a[0] == 'in' and a[1][0] == 'A' and a[1][2] == 'kind':
                init = it.obj_init.get(a[2], a[2])
                ks = set(kind_of_attr_term(s) for s in subterms(init) if kind_of_attr_term(s))
                if pol:
                    yes |= ks
            if a[0] in ('eq', 'is') and any(isinstance(x, tuple) and x[0] == 'A' and x[2] == 'kind' for x in a[1:]):
                k = [kind_of_attr_term(x) for x in a[1:] if kind_of_attr_term(x)]
                if k and pol:
                    yes.add(k[0])
        sets = [x for x in sp.effects if x.kind == 'mut' and x.op == 'setitem']
        exc = it._exc_name(sp.value) if sp.status == 'raise' else None
        key = 'bind_callsig|positional|%s|%s' % (','.join(sorted(yes)) or 'other', sp.status)
        if key in seen:
            continue
        seen.add(key)
        n += 1
        if yes and yes <= set(['PO', 'POK']):
            ok = len(sets) == 1 and sp.status == 'continue'
            msg = 'a positional argument is bound to the next positional parameter'
        elif yes == set(['VP']):
            ok = len(sets) == 1 and sp.status == 'break'
            msg = '*args takes this and every remaining positional argument'
            # CPython always hands *args over as a tuple: the stored value must be built as one, not be a piece of the
            # caller's own sequence (which may be a list)
            for x in sets:
                v = x.args[1]

                def _is_tuple(t):
                    if t[0] == 'T':
                        return True
                    if t[0] == 'C' and t[1] == 'tuple':
                        return True
                    if t[0] == 'B' and t[1] == 'Add':
                        return _is_tuple(t[2]) and _is_tuple(t[3])
                    return False
                kt = 'bind_callsig|varargs-tuple'
                if _is_tuple(v):
                    check.holds(rule, site_of(fi, x.node), 'the value bound to *args is built as a tuple', key=kt)
                elif v[0] in ('SL', 'S') and v[1][0] == 'P':
                    check.violation(rule, site_of(fi, x.node), 'the value bound to *args is %s, a piece of the caller\'s own sequence: for a list of '
                                    'arguments the mapping holds a list where CPython (and the function built by f) bind a tuple' % show(v)[:40],
                                    key=kt, witness="bind_callsig(s('a, *args'), [1, 2, 3], {})['args'] == (2, 3)")
                else:
                    check.inconclusive(rule, site_of(fi, x.node), 'value bound to *args not understood: %s' % show(v)[:60], key=kt)
        else:
            ok = sp.status == 'raise' and str(exc) == 'TypeError'
            msg = 'a positional argument meeting a keyword-only/**kwargs parameter -> TypeError'
        if ok:
            check.holds(rule, site_of(fi, pos_loop.node), msg, key=key)
        else:
            check.violation(rule, site_of(fi, pos_loop.node), 'positional binding: expected "%s", found %d stores, exit %s %s' % (msg, len(sets), sp.status, exc or ''),
                            key=key, guards=' & '.join(show_lit(l) for l in sp.lits)[:200], witness='bind_callsig must accept exactly the calls CPython accepts')
    # surplus positionals -> TypeError (the for-else)
    surplus = [p for p in paths if any(a[0] == 'broke' and not pol for a, pol in p.lits)]
    key = 'bind_callsig|surplus'
    ok = False
    sentinel = None
    other = None
    for p in surplus:
        raises = p.status == 'raise' and str(it._exc_name(p.value)) == 'TypeError'
        for a, pol in p.lits:
            if a[0] == 'eq' and any(isinstance(x, tuple) and x[0] == 'SL' for x in a[1:]):
                if (not pol) and raises:
                    ok = True
            elif a[0] == 'is' and raises and not pol and any(x == ('C', 'object', (), ()) for x in a[1:]) and \
                    any(isinstance(x, tuple) and x[0] == 'N' and mentions(x, argsp) for x in a[1:]):
                # `next(<iterator over the arguments>, <fresh object()>) is not <that object>`: no argument can be that object
                ok = True
            elif a[0] == 'exhausted' and raises and not pol:
                # `next(<iterator over the arguments>, None) is not None`: None is a legitimate argument value
                sentinel = (p, a)
            elif a[0] in ('cmp', 'is', 'isnone', 'truthy') and raises and a is p.lits[-1][0]:
                other = (p, a)
    if ok:
        check.holds(rule, st, 'surplus positional arguments -> TypeError', key=key)
    elif sentinel is not None:
        node = [e for e in sentinel[0].effects if e.kind == 'raise'][-1].node
        check.violation(rule, site_of(fi, node), 'surplus positional arguments are detected by fetching the next one with None as the "nothing left" '
                        'marker (%s): a surplus argument whose value is None goes unnoticed' % show_lit((sentinel[1], False))[:80], key=key,
                        witness="bind_callsig(s('a'), (1, None), {}) must raise TypeError")
    elif other is not None:
        node = [e for e in other[0].effects if e.kind == 'raise'][-1].node
        check.inconclusive(rule, site_of(fi, node), 'surplus test not understood: %s' % lits_text_(other[0].lits)[:160], key=key)
    else:
        check.violation(rule, st, 'surplus positional arguments are not rejected with TypeError', key=key, witness="bind_callsig(s('a'), (1, 2), {})")
    # ---- keyword binding
    el = ('E', kw_loop.target, kw_loop.ctx)
    kname = ('S', el, K(0))
    for sp in kw_loop.sub:
        lits = dict(sp.lits)
        known = lits.get(('in', kname, ('A', sigp, 'parameters')))
        yes = set()
        for a, pol in sp.lits:
            if a[0] == 'in' and a[1][0] == 'A' and a[1][2] == 'kind' and pol:
                init = it.obj_init.get(a[2], a[2])
                yes |= set(kind_of_attr_term(s) for s in subterms(init) if kind_of_attr_term(s))
            if a[0] in ('eq', 'is') and pol and any(isinstance(x, tuple) and x[0] == 'A' and x[2] == 'kind' for x in a[1:]):
                yes |= set(kind_of_attr_term(x) for x in a[1:] if kind_of_attr_term(x))
        twice = None
        hasvk = None
        for a, pol in sp.lits:
            if a[0] == 'in' and a[1] == kname and a[2][0] == 'D':
                twice = pol
            if a[0] == 'truthy' and a[1][0] in ('C', 'V') and ('next' in show(a[1]) or 'varkwargs' in show(a[1])):
                hasvk = pol
        exc = it._exc_name(sp.value) if sp.status == 'raise' else None
        sets = [x for x in sp.effects if x.kind == 'mut' and x.op == 'setitem']
        key = 'bind_callsig|keyword|known=%s,%s,twice=%s,varkw=%s' % (known, ','.join(sorted(yes)), twice, hasvk)
        if key in seen:
            continue
        seen.add(key)
        n += 1
        exp = None
        if known is True and yes == set(['PO']):
            exp = 'raise'
            msg = 'a keyword naming a positional-only parameter -> TypeError'
        elif known is True and yes and yes <= set(['POK', 'KWO']) and twice is True:
            exp = 'raise'
            msg = 'a keyword naming an already assigned parameter -> TypeError'
        elif known is True and yes and yes <= set(['POK', 'KWO']) and twice is False:
            exp = 'assign'
            msg = 'a keyword is bound to the parameter of that name'
        elif hasvk is True:
            exp = 'collect'
            msg = 'an unknown keyword is stored in the **kwargs mapping'
        elif hasvk is False:
            exp = 'raise'
            msg = 'an unknown keyword without **kwargs -> TypeError'
        if exp is None:
            continue
        if exp == 'raise':
            ok = sp.status == 'raise' and str(exc) == 'TypeError'
        elif exp == 'assign':
            ok = sp.status == 'continue' and len(sets) == 1 and sets[0].args[0] == kname
        else:
            ok = sp.status == 'continue' and len(sets) == 1 and sets[0].target[0] == 'S'
        if ok:
            check.holds(rule, site_of(fi, kw_loop.node), msg, key=key)
        else:
            check.violation(rule, site_of(fi, kw_loop.node), 'keyword binding: expected "%s", found exit %s %s with %d stores' % (msg, sp.status, exc or '', len(sets)),
                            key=key, guards=' & '.join(show_lit(l) for l in sp.lits)[:200], witness='bind_callsig must accept exactly the calls CPython accepts')
    # ---- filling in what was not passed
    el = ('E', fill_loop.target, fill_loop.ctx)
    for sp in fill_loop.sub:
        lits = dict(sp.lits)
        assigned = None
        for a, pol in sp.lits:
            if a[0] == 'in' and a[1] == ('A', el, 'name'):
                assigned = pol
        isvp = None
        for a, pol in sp.lits:
            if a[0] in ('eq', 'is') and any(kind_of_attr_term(x) == 'VP' for x in a[1:]):
                isvp = pol
        hd = lits.get(('has_default', el))
        sets = [x for x in sp.effects if x.kind == 'mut' and x.op == 'setitem']
        exc = it._exc_name(sp.value) if sp.status == 'raise' else None
        key = 'bind_callsig|fill|assigned=%s,vp=%s,default=%s' % (assigned, isvp, hd)
        if key in seen:
            continue
        seen.add(key)
        n += 1
        if assigned is True:
            ok, msg = (not sets and sp.status == 'continue'), 'an assigned parameter is left alone'
        elif isvp is True:
            ok, msg = (len(sets) == 1 and sets[0].args[1] == ('T', ())), 'a missing *args gets ()'
        elif hd is True:
            ok, msg = (len(sets) == 1 and sets[0].args[1] == ('A', el, 'default')), 'a missing defaulted parameter gets its default'
        elif hd is False:
            ok, msg = (sp.status == 'raise' and str(exc) == 'TypeError'), 'a missing required parameter -> TypeError'
        else:
            continue
        if ok:
            check.holds(rule, site_of(fi, fill_loop.node), msg, key=key)
        else:
            check.violation(rule, site_of(fi, fill_loop.node), 'filling in: expected "%s", found exit %s %s with %d stores' % (msg, sp.status, exc or '', len(sets)),
                            key=key, guards=' & '.join(show_lit(l) for l in sp.lits)[:200], witness="bind_callsig(s('a, b=2'), (1,), {}) == {'a': 1, 'b': 2}")
    required = [
        ('bind_callsig|keyword|known=True,PO,', 'a keyword naming a positional-only parameter -> TypeError'),
        ('bind_callsig|fill|assigned=False,vp=False,default=False', 'a missing required parameter -> TypeError'),
        ('bind_callsig|fill|assigned=False,vp=True', 'a missing *args gets ()'),
        ('bind_callsig|positional|KWO', None),
    ]
    for prefix, what in required:
        if what is None:
            continue
        if not any(k.startswith(prefix) for k in seen):
            check.violation(rule, st, 'bind_callsig has no path for the row "%s": such calls are now accepted/handled differently from CPython' % what,
                            key=prefix + '|missing', witness='bind_callsig must accept exactly the calls CPython accepts')
    check.floor(rule, 'rows of the bind_callsig table', n, 10)


def rule_future_flags(check, rule):
    """C20.R4: make_func combines the compiler flags of the requested __future__ features idempotently (bitwise or).
    Arithmetic addition counts a feature named twice twice, producing a different flag word."""
    repo = check.repo
    fi = repo.func(SUP + ':make_func', required=False)
    if fi is None:
        raise Inconclusive('support.make_func vanished')
    check.analysed(fi)
    st = site_of(fi, fi.node)
    uses = [n for n in ast.walk(fi.node) if isinstance(n, ast.Attribute) and n.attr == 'compiler_flag']
    key = 'make_func|flags'
    if not uses:
        check.inconclusive(rule, st, 'make_func no longer reads compiler_flag', key=key)
        return
    for u in uses:
        t = u
        how = None
        while t is not None and t is not fi.node:
            par = getattr(t, '_parent', None)
            if isinstance(par, ast.AugAssign) and t is par.value:
                how = type(par.op).__name__
                break
            if isinstance(par, ast.BinOp):
                how = type(par.op).__name__
                break
            if isinstance(par, ast.Call) and isinstance(par.func, ast.Name) and par.func.id == 'sum':
                how = 'sum'
                break
            if isinstance(par, ast.Call) and norm(par.func) in ('functools.reduce', 'reduce') and par.args and norm(par.args[0]).endswith('or_'):
                how = 'BitOr'
                break
            t = par
        if how == 'BitOr':
            check.holds(rule, site_of(fi, u), 'feature flags are combined with bitwise or (naming a feature twice changes nothing)', key=key)
        elif how in ('Add', 'sum'):
            check.violation(rule, site_of(fi, u), 'feature flags are added arithmetically (%s): a feature named twice is counted twice and a different '
                            'flag word reaches compile()' % how, key=key,
                            witness="f('a: int', future_features=('annotations', 'annotations'))")
        else:
            check.inconclusive(rule, site_of(fi, u), 'combination of compiler flags not recognised (%s)' % how, key=key)


def rule_func_from_sig(check, rule):
    """C20.R5: func_from_sig splits str(sig) at ' -> ' and hands the two pieces to f(<parameter text>, <return text>).
    Protocol of str.(r)partition: (head, sep, tail).  With a separator the parameter list is the head and the return
    annotation the tail; without one rpartition puts the whole string in the *tail* (partition: in the head).  Every path
    must pass the piece that holds the parenthesised parameter list (its [1:-1]) as the text and, when there is a
    separator, the tail as the return annotation."""
    repo = check.repo
    fi = repo.func(SUP + ':func_from_sig', required=False)
    if fi is None:
        raise Inconclusive('support.func_from_sig vanished')
    check.analysed(fi)
    it = Interp(repo, Policy(split_ifexp=True))
    paths = it.run(fi)
    check.absorb(it)
    n = 0
    seen = set()
    for p in paths:
        if p.status != 'return':
            continue
        v = p.value
        node = [e for e in p.effects if e.kind == 'return'][-1].node
        st = site_of(fi, node)
        if not (v[0] == 'C' and str(v[1]).endswith(':f') and v[2]):
            check.inconclusive(rule, st, 'func_from_sig does not return f(...): %s' % show(v)[:80], key='func_from_sig|shape')
            continue
        text = v[2][0]
        ret = v[2][1] if len(v[2]) > 1 else dict(v[3]).get('ret')
        parts = [s_ for s_ in subterms(text) if s_[0] == 'S' and s_[1][0] == 'M' and s_[1][2] in ('rpartition', 'partition') and s_[2][0] == 'K']
        if not parts:
            check.inconclusive(rule, st, 'parameter text %s is not a piece of str(sig).(r)partition(...)' % show(text)[:80], key='func_from_sig|text')
            continue
        part = parts[0][1]
        meth = part[2]
        tidx = parts[0][2][1]
        sep = None
        for a, pol in p.lits:
            if a[0] == 'truthy' and a[1] == ('S', part, K(1)):
                sep = pol
        n += 1
        key = 'func_from_sig|%s|sep=%s' % (meth, sep)
        if key in seen:
            continue
        seen.add(key)
        ridx = ret[2][1] if ret is not None and ret[0] == 'S' and ret[1] == part and ret[2][0] == 'K' else None
        msgs = []
        for sv in ([sep] if sep is not None else [True, False]):
            want_text = 0 if sv else (2 if meth == 'rpartition' else 0)
            if tidx != want_text:
                msgs.append('%s a separator the parameter list is piece %d of %s(), but piece %d is used as the signature text'
                            % ('with' if sv else 'without', want_text, meth, tidx))
            if sv and ridx != 2:
                msgs.append('with a separator the return annotation is piece 2 (the tail) of %s(), but %s is passed'
                            % (meth, 'piece %d' % ridx if ridx is not None else show(ret)[:30] if ret is not None else 'nothing'))
            if not sv and ridx is not None:
                msgs.append('without a separator there is no return annotation, but piece %d of %s() is passed as one' % (ridx, meth))
        if msgs:
            for m_ in msgs[:2]:
                check.violation(rule, st, 'func_from_sig: %s' % m_, key=key + '|' + m_[:30], guards=' & '.join(show_lit(l) for l in p.lits)[:120],
                                witness="func_from_sig(inspect.signature(lambda a, b=2: None).replace(return_annotation=int)) -> SyntaxError")
        else:
            check.holds(rule, st, 'func_from_sig hands f() the parameter list and the return annotation from the right pieces of %s()' % meth, key=key)
    check.floor(rule, 'returning paths of func_from_sig', n, 1)


def rule_read_sig_insertion_index(check, rule):
    """C20.R8: under `use_modifiers_kwoargs` read_sig keeps required keyword-only parameters ahead of defaulted ones by inserting them
    at a remembered index into `params`.  When that index is obtained by *counting* (from the loop index over the comma-separated
    text, or from len(params)), it has to take the star entry into account: the text has one entry for `*args` / `*`, while
    `params` holds the named `*args` but not the bare `*` -- so neither count is right on its own, and the assignment must depend
    (in its value or in the branch it sits under) on whether a star has been seen / sits at the end of `params`.  An index
    computed another way (looked up with .index(), say) is not judged."""
    repo = check.repo
    fi = repo.func(SUP + ':read_sig')
    check.analysed(fi)
    loop = None
    for n in fi.main_body:
        if isinstance(n, ast.For):
            loop = n
    key = 'read_sig|insertion-index'
    if loop is None:
        check.inconclusive(rule, site_of(fi, fi.node), 'read_sig: the loop over the comma-separated parameters was not found', key=key)
        return
    # the index variable: first argument of <list>.insert(<name>, ...)
    idx_names = set()
    lists = set()
    for c in ast.walk(loop):
        if isinstance(c, ast.Call) and isinstance(c.func, ast.Attribute) and c.func.attr == 'insert' and len(c.args) == 2 and isinstance(c.args[0], ast.Name):
            idx_names.add(c.args[0].id)
            lists.add(norm(c.func.value))
    if not idx_names:
        check.holds(rule, site_of(fi, loop), 'read_sig inserts at no remembered index', key=key, nontrivial=False)
        return
    # facts about stars: names bound inside a branch whose test looks at a leading '*', and such tests themselves
    star_names = set()
    for n in ast.walk(loop):
        if isinstance(n, ast.If) and "startswith('*" in norm(n.test):
            for s_ in n.body:
                for x in ast.walk(s_):
                    if isinstance(x, ast.Name) and isinstance(x.ctx, ast.Store):
                        star_names.add(x.id)
    loop_idx = set(x.id for x in ast.walk(loop.target) if isinstance(x, ast.Name))
    n_sites = 0
    for a in ast.walk(loop):
        if not (isinstance(a, ast.Assign) and len(a.targets) == 1 and isinstance(a.targets[0], ast.Name) and a.targets[0].id in idx_names):
            continue
        v = a.value
        if isinstance(v, ast.Constant):
            continue
        names = set(x.id for x in ast.walk(v) if isinstance(x, ast.Name))
        calls = [c for c in ast.walk(v) if isinstance(c, ast.Call)]
        counting = all(isinstance(c.func, ast.Name) and c.func.id == 'len' for c in calls) and \
            names <= (loop_idx | set(['len']) | set(l for l in lists if '.' not in l) | star_names)
        if not counting:
            continue
        n_sites += 1
        # control dependence: enclosing tests inside the loop
        tests = []
        t = a
        while getattr(t, '_parent', None) is not None and t is not loop:
            par = t._parent
            if isinstance(par, ast.If):
                tests.append(par.test)
            elif isinstance(par, ast.IfExp):
                tests.append(par.test)
            t = par
        dep_names = set(names)
        dep_txt = norm(v)
        for tt in tests:
            dep_names |= set(x.id for x in ast.walk(tt) if isinstance(x, ast.Name))
            dep_txt += ' ' + norm(tt)
        star_aware = bool(dep_names & star_names) or "startswith('*" in dep_txt
        st = site_of(fi, a)
        if star_aware:
            check.holds(rule, st, 'the remembered insertion index %s = %s takes the star entry into account' % (a.targets[0].id, norm(v)[:40]), key=key)
        else:
            check.violation(rule, st, 'the insertion index is counted as %s, whatever stars came before: the comma-separated text has an entry for the '
                            'star, `params` holds a named *args but not a bare *, so after a named *args a required keyword-only parameter is '
                            'inserted behind the defaulted one' % norm(v)[:40], key=key,
                            witness="s('a, *args, b=1, c', use_modifiers_kwoargs=True) generates def func(a, b=1, c, *args): SyntaxError")
    if not n_sites:
        check.holds(rule, site_of(fi, loop), 'the insertion index is not obtained by counting (not judged)', key=key, nontrivial=False)


def rule_read_sig_flag_gating(check, rule):
    """C20.R11: read_sig collects the names to hand to `modifiers.posoargs` / `modifiers.kwoargs` (4th and 5th element of its result) and the
    annotations to hand to `modifiers.annotate` (3rd) only under the option that asks for that spelling: every addition to the
    positional-only name list happens under `use_modifiers_posoargs`, to the keyword-only name list under `use_modifiers_kwoargs`, to
    the annotation map under `use_modifiers_annotate` -- otherwise the generated code applies a modifier nobody asked for (or the
    native and the modifier spelling of the same parameter at once)."""
    repo = check.repo
    fi = repo.func(SUP + ':read_sig')
    check.analysed(fi)
    it = Interp(repo, Policy())
    paths = it.run(fi)
    check.absorb(it)
    rets = [p for p in paths if p.status == 'return' and p.value[0] == 'T' and len(p.value[1]) >= 6]
    if not rets:
        check.inconclusive(rule, site_of(fi, fi.node), 'read_sig: result tuple not recognised', key='read_sig|gating')
        return
    v = rets[0].value[1]
    roles = {v[3]: ('use_modifiers_posoargs', 'positional-only names'), v[4]: ('use_modifiers_kwoargs', 'keyword-only names'),
             v[2]: ('use_modifiers_annotate', 'annotations')}
    allp = fi.params()[0] + fi.params()[2]
    n = 0
    seen = set()
    for p in rets[:1]:
        for e, g in walk_effects(p.effects):
            if e.kind != 'loop':
                continue
            for sp in e.sub:
                lits = dict(sp.lits)
                for x in sp.effects:
                    if x.kind == 'mut' and x.target in roles and x.op in ('append', 'extend', 'setitem', 'insert', 'update'):
                        flag, what = roles[x.target]
                        if flag not in allp:
                            continue
                        val = lits.get(('truthy', ('P', flag)))
                        key = 'read_sig|gating|%s|%s' % (flag, val)
                        if key in seen:
                            continue
                        seen.add(key)
                        n += 1
                        if val is True:
                            check.holds(rule, site_of(fi, x.node), 'additions to the %s happen under %s' % (what, flag), key=key)
                        else:
                            others = [a[1][1] for a, pol in sp.lits if a[0] == 'truthy' and a[1][0] == 'P' and a[1][1].startswith('use_modifiers')]
                            check.violation(rule, site_of(fi, x.node), 'the %s handed to the modifier are added to %s %s (the path tests %s)'
                                            % (what, 'although %s is off' % flag if val is False else 'without testing %s' % flag, '', ', '.join(sorted(set(others))) or 'no option'),
                                            key=key, witness="s('a, /, b', use_modifiers_kwoargs=True) must not apply modifiers.posoargs")
    check.floor(rule, 'gated additions in read_sig', n, 2)


def rule_options_forwarded(check, rule):
    """C20.R10: the spelling options reach read_sig: f() hands its `**kwargs` to read_sig, s() and func_from_sig() hand theirs to f()."""
    repo = check.repo
    n = 0
    for caller, callee in (('f', 'read_sig'), ('s', 'f'), ('func_from_sig', 'f')):
        fi = repo.func('%s:%s' % (SUP, caller), required=False)
        if fi is None:
            check.inconclusive(rule, '-', 'anchor %s vanished' % caller, key='options|%s' % caller)
            continue
        check.analysed(fi)
        kwarg = fi.params()[3]
        key = 'options|%s->%s' % (caller, callee)
        if kwarg is None:
            check.holds(rule, site_of(fi, fi.node), '%s takes no **options' % caller, key=key, nontrivial=False)
            continue
        calls = [c for c in ast.walk(fi.node) if isinstance(c, ast.Call) and norm(c.func).split('.')[-1] == callee]
        n += 1
        if not calls:
            check.violation(rule, site_of(fi, fi.node), '%s does not call %s' % (caller, callee), key=key)
            continue
        c = calls[0]
        if any(k.arg is None and isinstance(k.value, ast.Name) and k.value.id == kwarg for k in c.keywords):
            check.holds(rule, site_of(fi, c), '%s hands its **%s on to %s' % (caller, kwarg, callee), key=key)
        else:
            check.violation(rule, site_of(fi, c), '%s does not hand its **%s on to %s: the spelling options are silently ignored' % (caller, kwarg, callee),
                            key=key, witness="s('a, *, b', use_modifiers_kwoargs=True) must be built with modifiers.kwoargs")
    check.floor(rule, 'option-forwarding helpers', n, 2)


def rule_no_format_on_fstring(check, rule):
    """C20.R13 (D45): the code generators interpolate names, defaults and annotations into source text with f-strings.  Text that is
    already complete must not be run through `str.format` again: the braces of an interpolated value (a dict or set display written as
    an annotation or default) are then read as replacement fields, and the generated source raises or means something else -- in one
    spelling only, where the sibling spellings reproduce the value."""
    import ast as _ast
    from .index import norm as _norm
    repo = check.repo
    m = repo.module('support')
    n = 0
    for fi in m.funcs.values():
        for x in _ast.walk(fi.node):
            if isinstance(x, _ast.JoinedStr):
                n += 1
            if isinstance(x, _ast.Call) and isinstance(x.func, _ast.Attribute) and x.func.attr in ('format', 'format_map') \
                    and isinstance(x.func.value, _ast.JoinedStr):
                check.analysed(fi)
                check.violation(rule, '%s %s' % (fi.loc(x), fi.key), '%s: str.format applied to an f-string -- the braces of the interpolated values are '
                                'interpreted a second time' % _norm(x)[:70], key='format-on-fstring|%s' % fi.key,
                                witness="support.s('a: {1: 2}', use_modifiers_annotate=True) raises; the native spelling reproduces the annotation")
    for fi in m.funcs.values():
        if any(isinstance(x, _ast.JoinedStr) for x in _ast.walk(fi.node)):
            check.analysed(fi)
            check.holds(rule, '%s %s' % (fi.loc(), fi.key), 'f-strings of %s are used as they are' % fi.name, key='format-on-fstring|%s|ok' % fi.key)
    check.floor(rule, 'f-strings in support.py', n, 5)
