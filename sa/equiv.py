"""False-alarm sweep (used by tools/equiv.py during development and by the thorough tier for the checker's self-validation).  Applies behaviour-preserving source transformations to one function
of /repo/sigtools at a time (on a scratch copy) and runs all twenty checks: every non-zero exit is a false alarm or an
INCONCLUSIVE on correct code, to be fixed in the machinery.

usage: tools/equiv.py [--jobs N] [--out FILE] [--only T1,T2] [--modules _signatures,...] [--list]

transformations
  T0  whole file through ast.unparse (layout, quoting, comments)
  T1  alpha-rename the local variables of one function (functions without nested scopes other than comprehensions)
  T2  `if c: A else: B`  ->  `if not c: B else: A`
  T3  `return <expr>`    ->  `_ret = <expr>; return _ret`
  T4  `if c: <...; return/raise/continue/break>` + rest  ->  `if c: ... else: rest`
  T5  `if a and b: X` (no else)  ->  `if a: if b: X`
  T6  `for x in <expr>:` -> `_it = <expr>; for x in _it:`
  T7  a docstring-free function gets a docstring and a leading `pass`
  T8  `a = b = v` -> `b = v; a = b` (name targets)
  T9  `x not in y` <-> `not x in y`;  `x is not y` <-> `not x is y`
  T10 `self` renamed to `this` in a method
  T13 dict/set/list(<generator>) -> the comprehension display
  T14 `x = a if c else b` -> if c: x = a / else: x = b
  T16 `<expr> == <KIND constant>` -> `<KIND constant> == <expr>`;  `in (a, b)` -> `in [a, b]`
  T19 two adjacent independent assignments of simple values swapped
  T20 `not (a or b)` -> `not a and not b`
  T25 bare `return` / falling off the end -> `return None`
  T27 `n -= 1` -> `n = n - 1` (integer constants)
  T35 `isinstance(x, (A, B))` -> `isinstance(x, A) or isinstance(x, B)`
  T36 `<loop variable>.kind` read once into a local at the top of the loop body
  T37 `for ...: if c: BODY` -> `for ...: if not c: continue; BODY`
  T40 `except (A, B):` -> two handlers with the same body
  T42 trailing positional arguments of calls to module-level functions of the same module passed by keyword
  T52 the whole function body wrapped in `try: ... finally: pass`
  T56 the first argument of a call statement computed into a temporary first
"""
import ast, copy, io, json, os, shutil, sys, tempfile, time
from concurrent.futures import ProcessPoolExecutor
HERE = os.path.dirname(os.path.dirname(os.path.abspath(__file__)))
if HERE not in sys.path:
    sys.path.insert(0, HERE)
ALL = ['C%02d' % i for i in range(1, 21)]
SRC = '/repo/sigtools'
MODULES = ['_signatures', '_autoforwards', '_specifiers', '_util', 'modifiers', 'specifiers', 'wrappers', 'support', 'sphinxext', 'signatures']


def functions(tree):
    """(qualname, node) of every def, outermost first"""
    out = []

    def walk(node, prefix):
        for ch in ast.iter_child_nodes(node):
            if isinstance(ch, (ast.FunctionDef, ast.AsyncFunctionDef)):
                out.append((prefix + ch.name, ch))
                walk(ch, prefix + ch.name + '.')
            elif isinstance(ch, ast.ClassDef):
                walk(ch, prefix + ch.name + '.')
            else:
                walk(ch, prefix)
    walk(tree, '')
    return out


def own_nodes(fn):
    """nodes of fn not inside a nested def/lambda/class"""
    out = []
    stack = list(ast.iter_child_nodes(fn))
    while stack:
        n = stack.pop()
        out.append(n)
        if isinstance(n, (ast.FunctionDef, ast.AsyncFunctionDef, ast.Lambda, ast.ClassDef)):
            continue
        stack.extend(ast.iter_child_nodes(n))
    return out


def has_nested_scope(fn):
    for n in ast.walk(fn):
        if n is not fn and isinstance(n, (ast.FunctionDef, ast.AsyncFunctionDef, ast.Lambda, ast.ClassDef)):
            return True
    return False


# ---- transformations: each takes the function node (a deep copy inside a deep-copied tree) and returns the number of edits


def t1_rename(fn):
    if has_nested_scope(fn):
        return 0
    params = set(a.arg for a in fn.args.posonlyargs + fn.args.args + fn.args.kwonlyargs)
    if fn.args.vararg:
        params.add(fn.args.vararg.arg)
    if fn.args.kwarg:
        params.add(fn.args.kwarg.arg)
    declared = set()
    for n in ast.walk(fn):
        if isinstance(n, (ast.Global, ast.Nonlocal)):
            declared |= set(n.names)
    stores = set()
    for n in ast.walk(fn):
        if isinstance(n, ast.Name) and isinstance(n.ctx, (ast.Store, ast.Del)):
            stores.add(n.id)
        elif isinstance(n, ast.ExceptHandler) and n.name:
            stores.add(n.name)
    # names used in locals()/vars()/eval are not renamed
    for n in ast.walk(fn):
        if isinstance(n, ast.Call) and isinstance(n.func, ast.Name) and n.func.id in ('locals', 'vars', 'eval', 'exec'):
            return 0
    ren = dict((s, s + '_r') for s in stores - params - declared if not s.startswith('__'))
    used = set(n.id for n in ast.walk(fn) if isinstance(n, ast.Name))
    ren = dict((k, v) for k, v in ren.items() if v not in used)
    if not ren:
        return 0
    k = 0
    for n in ast.walk(fn):
        if isinstance(n, ast.Name) and n.id in ren:
            n.id = ren[n.id]
            k += 1
        elif isinstance(n, ast.ExceptHandler) and n.name in ren:
            n.name = ren[n.name]
            k += 1
    return k


def t2_negate(fn):
    k = 0
    for n in own_nodes(fn):
        if isinstance(n, ast.If) and n.orelse:
            n.test = ast.UnaryOp(op=ast.Not(), operand=n.test)
            n.body, n.orelse = n.orelse, n.body
            k += 1
    return k


def t3_extract_return(fn):
    k = 0
    # (one temporary name for the whole function: several returns share it, as hand-written code does with `ret`)
    for n in [fn] + own_nodes(fn):
        for field in ('body', 'orelse', 'finalbody'):
            blk = getattr(n, field, None)
            if not isinstance(blk, list):
                continue
            new = []
            for s in blk:
                if isinstance(s, ast.Return) and s.value is not None and not isinstance(s.value, (ast.Name, ast.Constant)):
                    new.append(ast.Assign(targets=[ast.Name(id='_ret', ctx=ast.Store())], value=s.value, lineno=0))
                    new.append(ast.Return(value=ast.Name(id='_ret', ctx=ast.Load())))
                    k += 1
                else:
                    new.append(s)
            setattr(n, field, new)
        if isinstance(n, ast.Try):
            for h in n.handlers:
                new = []
                for s in h.body:
                    if isinstance(s, ast.Return) and s.value is not None and not isinstance(s.value, (ast.Name, ast.Constant)):
                        new.append(ast.Assign(targets=[ast.Name(id='_ret', ctx=ast.Store())], value=s.value, lineno=0))
                        new.append(ast.Return(value=ast.Name(id='_ret', ctx=ast.Load())))
                        k += 1
                    else:
                        new.append(s)
                h.body = new
    return k


def t4_else_rest(fn):
    k = 0
    for n in [fn] + own_nodes(fn):
        for field in ('body', 'orelse', 'finalbody'):
            blk = getattr(n, field, None)
            if not isinstance(blk, list):
                continue
            for i, s in enumerate(blk):
                if isinstance(s, ast.If) and not s.orelse and isinstance(s.body[-1], (ast.Return, ast.Raise, ast.Continue, ast.Break)) \
                        and i + 1 < len(blk):
                    s.orelse = blk[i + 1:]
                    del blk[i + 1:]
                    k += 1
                    break
    return k


def t5_split_and(fn):
    k = 0
    for n in own_nodes(fn):
        if isinstance(n, ast.If) and not n.orelse and isinstance(n.test, ast.BoolOp) and isinstance(n.test.op, ast.And):
            vals = n.test.values
            inner = ast.If(test=vals[-1] if len(vals) == 2 else ast.BoolOp(op=ast.And(), values=vals[1:]), body=n.body, orelse=[])
            n.test = vals[0]
            n.body = [inner]
            k += 1
    return k


def t6_iter_temp(fn):
    k = 0
    for n in [fn] + own_nodes(fn):
        for field in ('body', 'orelse', 'finalbody'):
            blk = getattr(n, field, None)
            if not isinstance(blk, list):
                continue
            new = []
            for s in blk:
                if isinstance(s, ast.For) and not isinstance(s.iter, ast.Name):
                    new.append(ast.Assign(targets=[ast.Name(id='_it%d' % k, ctx=ast.Store())], value=s.iter, lineno=0))
                    s.iter = ast.Name(id='_it%d' % k, ctx=ast.Load())
                    k += 1
                new.append(s)
            setattr(n, field, new)
    return k


def t7_doc_pass(fn):
    if ast.get_docstring(fn) is None:
        fn.body.insert(0, ast.Expr(value=ast.Constant(value='Documented.')))
        fn.body.insert(1, ast.Pass())
    else:
        fn.body.insert(1, ast.Pass())
    return 1


def t8_unchain(fn):
    k = 0
    for n in [fn] + own_nodes(fn):
        for field in ('body', 'orelse', 'finalbody'):
            blk = getattr(n, field, None)
            if not isinstance(blk, list):
                continue
            new = []
            for s in blk:
                if isinstance(s, ast.Assign) and len(s.targets) == 2 and all(isinstance(t, (ast.Name, ast.Attribute)) for t in s.targets) \
                        and isinstance(s.targets[1], ast.Name):
                    a, b = s.targets
                    new.append(ast.Assign(targets=[b], value=s.value, lineno=0))
                    new.append(ast.Assign(targets=[a], value=ast.Name(id=b.id, ctx=ast.Load()), lineno=0))
                    k += 1
                else:
                    new.append(s)
            setattr(n, field, new)
    return k


class _T9(ast.NodeTransformer):
    def __init__(self):
        self.k = 0

    def visit_Compare(self, node):
        self.generic_visit(node)
        if len(node.ops) == 1 and isinstance(node.ops[0], (ast.NotIn, ast.IsNot)):
            self.k += 1
            op = ast.In() if isinstance(node.ops[0], ast.NotIn) else ast.Is()
            return ast.UnaryOp(op=ast.Not(), operand=ast.Compare(left=node.left, ops=[op], comparators=node.comparators))
        return node

    def visit_UnaryOp(self, node):
        if isinstance(node.op, ast.Not) and isinstance(node.operand, ast.Compare) and len(node.operand.ops) == 1 \
                and isinstance(node.operand.ops[0], (ast.In, ast.Is)):
            c = node.operand
            self.k += 1
            op = ast.NotIn() if isinstance(c.ops[0], ast.In) else ast.IsNot()
            return ast.Compare(left=self.visit(c.left), ops=[op], comparators=[self.visit(x) for x in c.comparators])
        self.generic_visit(node)
        return node


def t9_not_forms(fn):
    t = _T9()
    new_body = [t.visit(s) for s in fn.body]
    fn.body = new_body
    return t.k


def t10_rename_self(fn):
    a = fn.args.posonlyargs + fn.args.args
    if not a or a[0].arg != 'self' or has_nested_scope(fn):
        return 0
    if any(isinstance(n, ast.Name) and n.id == 'this' for n in ast.walk(fn)):
        return 0
    a[0].arg = 'this'
    k = 1
    for n in ast.walk(fn):
        if isinstance(n, ast.Name) and n.id == 'self':
            n.id = 'this'
            k += 1
    return k


class _T13(ast.NodeTransformer):
    def __init__(self):
        self.k = 0

    def visit_Call(self, node):
        self.generic_visit(node)
        if isinstance(node.func, ast.Name) and len(node.args) == 1 and not node.keywords and isinstance(node.args[0], ast.GeneratorExp):
            g = node.args[0]
            if node.func.id == 'dict' and isinstance(g.elt, ast.Tuple) and len(g.elt.elts) == 2:
                self.k += 1
                return ast.DictComp(key=g.elt.elts[0], value=g.elt.elts[1], generators=g.generators)
            if node.func.id == 'set':
                self.k += 1
                return ast.SetComp(elt=g.elt, generators=g.generators)
            if node.func.id == 'list':
                self.k += 1
                return ast.ListComp(elt=g.elt, generators=g.generators)
        return node


def t13_comprehensions(fn):
    t = _T13()
    fn.body = [t.visit(s) for s in fn.body]
    return t.k


def t14_ifexp_to_if(fn):
    k = 0
    for n in [fn] + own_nodes(fn):
        for field in ('body', 'orelse', 'finalbody'):
            blk = getattr(n, field, None)
            if not isinstance(blk, list):
                continue
            new = []
            for s in blk:
                if isinstance(s, ast.Assign) and isinstance(s.value, ast.IfExp) and len(s.targets) == 1 and isinstance(s.targets[0], ast.Name):
                    t = s.targets[0]
                    new.append(ast.If(test=s.value.test,
                                      body=[ast.Assign(targets=[ast.Name(id=t.id, ctx=ast.Store())], value=s.value.body, lineno=0)],
                                      orelse=[ast.Assign(targets=[ast.Name(id=t.id, ctx=ast.Store())], value=s.value.orelse, lineno=0)]))
                    k += 1
                else:
                    new.append(s)
            setattr(n, field, new)
    return k


def _is_kind_const(x):
    return isinstance(x, ast.Attribute) and x.attr.isupper()


class _T16(ast.NodeTransformer):
    def __init__(self):
        self.k = 0

    def visit_Compare(self, node):
        self.generic_visit(node)
        if len(node.ops) == 1 and isinstance(node.ops[0], (ast.Eq, ast.NotEq)) and _is_kind_const(node.comparators[0]) \
                and not _is_kind_const(node.left):
            self.k += 1
            return ast.Compare(left=node.comparators[0], ops=node.ops, comparators=[node.left])
        if len(node.ops) == 1 and isinstance(node.ops[0], (ast.In, ast.NotIn)) and isinstance(node.comparators[0], ast.Tuple):
            self.k += 1
            return ast.Compare(left=node.left, ops=node.ops, comparators=[ast.List(elts=node.comparators[0].elts, ctx=ast.Load())])
        return node


def t16_swap_kind_compare(fn):
    t = _T16()
    fn.body = [t.visit(s) for s in fn.body]
    return t.k


def _pure_simple(v):
    if isinstance(v, (ast.Constant, ast.Name)):
        return True
    if isinstance(v, (ast.List, ast.Tuple, ast.Set)) and not v.elts:
        return True
    if isinstance(v, ast.Dict) and not v.keys:
        return True
    if isinstance(v, ast.Call) and isinstance(v.func, ast.Name) and v.func.id in ('set', 'dict', 'list') and not v.args and not v.keywords:
        return True
    return False


def t19_swap_assigns(fn):
    k = 0
    for n in [fn] + own_nodes(fn):
        for field in ('body', 'orelse', 'finalbody'):
            blk = getattr(n, field, None)
            if not isinstance(blk, list):
                continue
            i = 0
            while i + 1 < len(blk):
                a, b = blk[i], blk[i + 1]
                if isinstance(a, ast.Assign) and isinstance(b, ast.Assign) and len(a.targets) == 1 and len(b.targets) == 1 \
                        and isinstance(a.targets[0], ast.Name) and isinstance(b.targets[0], ast.Name) and _pure_simple(a.value) and _pure_simple(b.value):
                    na = set(x.id for x in ast.walk(a) if isinstance(x, ast.Name))
                    nb = set(x.id for x in ast.walk(b) if isinstance(x, ast.Name))
                    if a.targets[0].id not in nb and b.targets[0].id not in na:
                        blk[i], blk[i + 1] = b, a
                        k += 1
                        i += 2
                        continue
                i += 1
    return k


class _T20(ast.NodeTransformer):
    def __init__(self):
        self.k = 0

    def visit_UnaryOp(self, node):
        self.generic_visit(node)
        if isinstance(node.op, ast.Not) and isinstance(node.operand, ast.BoolOp) and isinstance(node.operand.op, ast.Or):
            self.k += 1
            return ast.BoolOp(op=ast.And(), values=[ast.UnaryOp(op=ast.Not(), operand=v) for v in node.operand.values])
        return node


def t20_de_morgan(fn):
    t = _T20()
    fn.body = [t.visit(s) for s in fn.body]
    return t.k


def t25_explicit_return_none(fn):
    if any(isinstance(n, (ast.Yield, ast.YieldFrom)) for n in own_nodes(fn)):
        return 0
    k = 0
    for n in own_nodes(fn):
        if isinstance(n, ast.Return) and n.value is None:
            n.value = ast.Constant(value=None)
            k += 1
    if not isinstance(fn.body[-1], (ast.Return, ast.Raise)):
        fn.body.append(ast.Return(value=ast.Constant(value=None)))
        k += 1
    return k


def t27_unaugment(fn):
    k = 0
    for n in [fn] + own_nodes(fn):
        for field in ('body', 'orelse', 'finalbody'):
            blk = getattr(n, field, None)
            if not isinstance(blk, list):
                continue
            for i, s in enumerate(blk):
                if isinstance(s, ast.AugAssign) and isinstance(s.target, ast.Name) and isinstance(s.value, ast.Constant) and isinstance(s.value.value, int):
                    blk[i] = ast.Assign(targets=[ast.Name(id=s.target.id, ctx=ast.Store())],
                                        value=ast.BinOp(left=ast.Name(id=s.target.id, ctx=ast.Load()), op=s.op, right=s.value), lineno=0)
                    k += 1
    return k


class _T35(ast.NodeTransformer):
    def __init__(self):
        self.k = 0

    def visit_Call(self, node):
        self.generic_visit(node)
        if isinstance(node.func, ast.Name) and node.func.id == 'isinstance' and len(node.args) == 2 and isinstance(node.args[1], ast.Tuple) \
                and len(node.args[1].elts) >= 2 and isinstance(node.args[0], ast.Name):
            self.k += 1
            return ast.BoolOp(op=ast.Or(), values=[ast.Call(func=ast.Name(id='isinstance', ctx=ast.Load()), args=[node.args[0], e], keywords=[])
                                                   for e in node.args[1].elts])
        return node


def t35_isinstance_split(fn):
    t = _T35()
    fn.body = [t.visit(s) for s in fn.body]
    return t.k


def t36_hoist_kind(fn):
    k = 0
    for n in own_nodes(fn):
        if isinstance(n, ast.For) and isinstance(n.target, ast.Name):
            v = n.target.id
            uses = [x for s in n.body for x in ast.walk(s) if isinstance(x, ast.Attribute) and x.attr == 'kind' and isinstance(x.value, ast.Name)
                    and x.value.id == v and isinstance(x.ctx, ast.Load)]
            rebinds = [x for s in n.body for x in ast.walk(s) if isinstance(x, ast.Name) and x.id == v and not isinstance(x.ctx, ast.Load)]
            nested = [x for s in n.body for x in ast.walk(s) if isinstance(x, (ast.FunctionDef, ast.Lambda, ast.GeneratorExp, ast.ListComp, ast.DictComp, ast.SetComp))]
            if len(uses) < 2 or rebinds or nested:
                continue

            class R(ast.NodeTransformer):
                def visit_Attribute(self, node):
                    if node.attr == 'kind' and isinstance(node.value, ast.Name) and node.value.id == v and isinstance(node.ctx, ast.Load):
                        return ast.Name(id='kind_', ctx=ast.Load())
                    self.generic_visit(node)
                    return node
            n.body = [R().visit(s) for s in n.body]
            n.body.insert(0, ast.Assign(targets=[ast.Name(id='kind_', ctx=ast.Store())],
                                        value=ast.Attribute(value=ast.Name(id=v, ctx=ast.Load()), attr='kind', ctx=ast.Load()), lineno=0))
            k += 1
    return k


def t37_guard_continue(fn):
    k = 0
    for n in own_nodes(fn):
        if isinstance(n, (ast.For, ast.While)) and len(n.body) == 1 and isinstance(n.body[0], ast.If) and not n.body[0].orelse and not n.orelse:
            i = n.body[0]
            n.body = [ast.If(test=ast.UnaryOp(op=ast.Not(), operand=i.test), body=[ast.Continue()], orelse=[])] + i.body
            k += 1
    return k


def t40_split_handlers(fn):
    k = 0
    for n in own_nodes(fn):
        if isinstance(n, ast.Try):
            new = []
            for h in n.handlers:
                if isinstance(h.type, ast.Tuple) and len(h.type.elts) >= 2 and h.name is None:
                    for e in h.type.elts:
                        new.append(ast.ExceptHandler(type=e, name=None, body=h.body))
                    k += 1
                else:
                    new.append(h)
            n.handlers = new
    return k


_MODULE_DEFS = {}


def _module_defs(tree):
    out = {}
    for s in tree.body:
        if isinstance(s, ast.FunctionDef) and not s.args.vararg and not s.args.posonlyargs and not s.decorator_list:
            out[s.name] = [a.arg for a in s.args.args]
    return out


def t42_keyword_calls(fn, defs=None):
    defs = defs or {}
    k = 0
    for n in ast.walk(fn):
        if isinstance(n, ast.Call) and isinstance(n.func, ast.Name) and n.func.id in defs and n.args \
                and not any(isinstance(a, ast.Starred) for a in n.args) and len(n.args) <= len(defs[n.func.id]) and len(n.args) >= 2:
            names = defs[n.func.id]
            used = set(kw.arg for kw in n.keywords)
            keep = 1
            conv = []
            for i, a in enumerate(n.args[keep:], keep):
                if names[i] in used:
                    conv = None
                    break
                conv.append(ast.keyword(arg=names[i], value=a))
            if conv:
                n.keywords = conv + n.keywords
                n.args = n.args[:keep]
                k += 1
    return k


def t52_wrap_try_finally(fn):
    if any(isinstance(n, (ast.Yield, ast.YieldFrom)) for n in own_nodes(fn)) and False:
        return 0
    body = fn.body
    start = 1 if (body and isinstance(body[0], ast.Expr) and isinstance(body[0].value, ast.Constant) and isinstance(body[0].value.value, str)) else 0
    # keep global/nonlocal declarations in front
    while start < len(body) and isinstance(body[start], (ast.Global, ast.Nonlocal)):
        start += 1
    rest = body[start:]
    if not rest:
        return 0
    fn.body = body[:start] + [ast.Try(body=rest, handlers=[], orelse=[], finalbody=[ast.Pass()])]
    return 1


def t56_hoist_first_argument(fn):
    """`r = f(g(x), ...)` -> `_a = g(x); r = f(_a, ...)` for simple statements whose value is a call with a non-trivial first argument and
    a side-effect-free callee expression (a name or attribute chain)"""
    k = 0

    def simple_callee(e):
        while isinstance(e, ast.Attribute):
            e = e.value
        return isinstance(e, ast.Name)
    for n in [fn] + own_nodes(fn):
        for field in ('body', 'orelse', 'finalbody'):
            blk = getattr(n, field, None)
            if not isinstance(blk, list):
                continue
            new = []
            for s in blk:
                call = None
                if isinstance(s, (ast.Assign, ast.Return, ast.Expr)) and isinstance(getattr(s, 'value', None), ast.Call):
                    call = s.value
                if call is not None and simple_callee(call.func) and call.args and isinstance(call.args[0], (ast.Call, ast.Subscript, ast.BinOp, ast.Attribute)) \
                        and not any(isinstance(x, (ast.Yield, ast.YieldFrom, ast.Await, ast.NamedExpr, ast.Starred)) for x in ast.walk(call.args[0])) \
                        and not isinstance(call.args[0], ast.Starred):
                    tmp = '_a%d' % k
                    new.append(ast.Assign(targets=[ast.Name(id=tmp, ctx=ast.Store())], value=call.args[0], lineno=0))
                    call.args[0] = ast.Name(id=tmp, ctx=ast.Load())
                    k += 1
                new.append(s)
            setattr(n, field, new)
    return k


def t53_wrap_if_true(fn):
    body = fn.body
    start = 1 if (body and isinstance(body[0], ast.Expr) and isinstance(body[0].value, ast.Constant) and isinstance(body[0].value.value, str)) else 0
    while start < len(body) and isinstance(body[start], (ast.Global, ast.Nonlocal)):
        start += 1
    rest = body[start:]
    if not rest:
        return 0
    fn.body = body[:start] + [ast.With(items=[ast.withitem(context_expr=ast.Call(func=ast.Attribute(value=ast.Name(id='contextlib', ctx=ast.Load()), attr='nullcontext', ctx=ast.Load()), args=[], keywords=[]), optional_vars=None)], body=rest)]
    return 1


TRANSFORMS = {'T56': t56_hoist_first_argument, 'T52': t52_wrap_try_finally, 'T35': t35_isinstance_split, 'T36': t36_hoist_kind, 'T37': t37_guard_continue, 'T40': t40_split_handlers, 'T42': t42_keyword_calls,
              'T10': t10_rename_self, 'T13': t13_comprehensions, 'T14': t14_ifexp_to_if, 'T16': t16_swap_kind_compare, 'T19': t19_swap_assigns,
              'T20': t20_de_morgan, 'T25': t25_explicit_return_none, 'T27': t27_unaugment,
              'T1': t1_rename, 'T2': t2_negate, 'T3': t3_extract_return, 'T4': t4_else_rest, 'T5': t5_split_and, 'T6': t6_iter_temp,
              'T7': t7_doc_pass, 'T8': t8_unchain, 'T9': t9_not_forms}


def make_variant(mod, tname, qual, src_dir=None):
    """-> new source text or None"""
    path = os.path.join(src_dir or SRC, mod + '.py')
    tree = ast.parse(open(path).read())
    if tname == 'T0':
        return ast.unparse(tree) + '\n'
    for q, fn in functions(tree):
        if q == qual:
            k = TRANSFORMS[tname](fn, _module_defs(tree)) if tname == 'T42' else TRANSFORMS[tname](fn)
            if not k:
                return None
            ast.fix_missing_locations(tree)
            src = ast.unparse(tree) + '\n'
            compile(src, path, 'exec')
            return src
    return None


def run_variant(job, props=None, src_dir=None):
    mod, tname, qual = job[:3]
    if len(job) > 3:
        props, src_dir = job[3], job[4]
    job = tuple(job[:3])
    src_dir = src_dir or SRC
    from sa.main import run_property
    try:
        src = make_variant(mod, tname, qual, src_dir)
    except Exception as e:
        return job, 'transform-error', {'error': repr(e)}
    if src is None:
        return job, 'n/a', {}
    d = tempfile.mkdtemp(prefix='sa-eq-')
    fired = {}
    try:
        shutil.copytree(src_dir, os.path.join(d, 'sigtools'), ignore=shutil.ignore_patterns('__pycache__', 'tests'))
        open(os.path.join(d, 'sigtools', mod + '.py'), 'w').write(src)
        for p in (props or ALL):
            buf = io.StringIO()
            code = run_property(p, d, 'quick', write_evidence=False, out=buf)
            if code != 0:
                lines = [l for l in buf.getvalue().splitlines() if '[VIOLATION]' in l or 'ANALYSIS-ERROR' in l]
                fired[p] = (code, lines[:3])
    finally:
        shutil.rmtree(d, ignore_errors=True)
    return job, 'alarm' if fired else 'silent', fired


def candidates(src_dir=None, mods=None, only=None):
    jobs = []
    for mod in (mods or MODULES):
        path = os.path.join(src_dir or SRC, mod + '.py')
        if not os.path.exists(path):
            continue
        try:
            tree = ast.parse(open(path).read())
        except SyntaxError:
            continue
        if only is None or 'T0' in only:
            jobs.append((mod, 'T0', ''))
        for q, fn in functions(tree):
            for t in sorted(TRANSFORMS):
                if only is None or t in only:
                    jobs.append((mod, t, q))
    return jobs


def run_for_property(pid, repo_path, jobs_n=16, modules=None):
    """thorough tier: every applicable variant of the modules this property's check looks at, judged by that check only.
    -> dict(variants=..., silent=..., not_silent=[...])"""
    src_dir = os.path.join(repo_path, 'sigtools')
    jobs = [j + ([pid], src_dir) for j in candidates(src_dir, mods=[m for m in MODULES if modules is None or m in modules])]
    n = 0
    bad = []
    with ProcessPoolExecutor(jobs_n) as ex:
        for job, status, fired in ex.map(run_variant, jobs, chunksize=8):
            if status == 'n/a':
                continue
            n += 1
            if status != 'silent':
                bad.append({'module': job[0], 'transformation': job[1], 'function': job[2], 'status': status,
                            'detail': dict((p, [c, l[:1]]) for p, (c, l) in fired.items()) if isinstance(fired, dict) and status == 'alarm' else str(fired)[:200]})
    return {'variants': n, 'silent': n - len(bad), 'not_silent': bad[:20], 'transformations': sorted(TRANSFORMS) + ['T0'],
            'modules': [m for m in MODULES if modules is None or m in modules]}


def main():
    args = sys.argv[1:]
    jobs_n = 16
    out = '/tmp/equiv.jsonl'
    only = None
    mods = MODULES
    if '--jobs' in args:
        jobs_n = int(args[args.index('--jobs') + 1])
    if '--out' in args:
        out = args[args.index('--out') + 1]
    if '--only' in args:
        only = args[args.index('--only') + 1].split(',')
    if '--modules' in args:
        mods = args[args.index('--modules') + 1].split(',')
    jobs = []
    for mod in mods:
        path = os.path.join(SRC, mod + '.py')
        if not os.path.exists(path):
            continue
        tree = ast.parse(open(path).read())
        if only is None or 'T0' in only:
            jobs.append((mod, 'T0', ''))
        for q, fn in functions(tree):
            for t in sorted(TRANSFORMS):
                if only is None or t in only:
                    jobs.append((mod, t, q))
    if '--list' in args:
        print(len(jobs), 'candidate variants')
        return 0
    t0 = time.time()
    n = alarms = 0
    with ProcessPoolExecutor(jobs_n) as ex, open(out, 'w') as f:
        for job, status, fired in ex.map(run_variant, jobs, chunksize=4):
            if status == 'n/a':
                continue
            n += 1
            f.write(json.dumps({'job': job, 'status': status, 'fired': fired}) + '\n')
            if status != 'silent':
                alarms += 1
                print('%-14s %-3s %-45s %s' % (job[0], job[1], job[2], status))
                for p, (code, lines) in sorted(fired.items()) if isinstance(fired, dict) and status == 'alarm' else []:
                    print('      %s exit %d  %s' % (p, code, (lines[0] if lines else '')[:230]))
                if status == 'transform-error':
                    print('      ', fired)
    print('variants run: %d   alarms: %d   (%.0fs)' % (n, alarms, time.time() - t0))
    return 0


if __name__ == '__main__':
    sys.exit(main())
