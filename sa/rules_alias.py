"""E5 -- provenance/alias domain: inputs are not mutated, results do not share
their provenance maps with the inputs (C16.R1, C16.R2)."""
import ast

from .index import Inconclusive, norm
from .interp import Interp, Policy, show, show_lit, walk_effects, K, NONE, subterms, mentions
from .callgraph import CallGraph
from .rules_embed import _bind

SIG = '_signatures'
PUBLIC = ['merge', 'embed', 'mask', 'forwards', 'sort_params', 'apply_params']

# external methods whose result is a new object / not a handle on the receiver's storage
METHOD_FRESH = frozenset(['replace', 'copy', 'format', 'join', 'split', 'index', 'count', 'evaluated', 'bind', 'bind_partial',
                          'lstrip', 'strip', 'rpartition', 'intersection', 'union', 'difference', 'startswith', 'endswith'])
# results reachable from the receiver
METHOD_ALIAS = frozenset(['get', 'pop', 'setdefault', 'values', 'items', 'keys', 'popitem', '__getitem__'])
EXT_PASSTHROUGH = frozenset(['iter', 'reversed', 'enumerate', 'zip', 'itertools.zip_longest', 'zip_longest', 'itertools.chain',
                             'itertools.chain.from_iterable', 'getattr', 'next', 'itertools.izip'])
EXT_FRESH = frozenset(['list', 'dict', 'set', 'tuple', 'sorted', 'len', 'str', 'repr', 'isinstance', 'all', 'any', 'frozenset',
                       'collections.OrderedDict', 'OrderedDict', 'callable', 'super', 'type', 'hasattr'])
SHARED = '<shared>'


def site_of(fi, node):
    return '%s %s' % (fi.loc(node), fi.key)


def _mutable_default(fi, pname):
    a = fi.node.args
    allpos = a.posonlyargs + a.args
    d = None
    names = [x.arg for x in allpos]
    if pname in names:
        j = names.index(pname) - (len(allpos) - len(a.defaults))
        if j >= 0:
            d = a.defaults[j]
    else:
        kn = [x.arg for x in a.kwonlyargs]
        if pname in kn:
            d = a.kw_defaults[kn.index(pname)]
    if d is None:
        return False
    if isinstance(d, (ast.List, ast.Dict, ast.Set)):
        return True
    if isinstance(d, ast.Call) and norm(d.func).split('.')[-1] in ('list', 'dict', 'set', 'OrderedDict'):
        return True
    return False


class Alias(object):
    def __init__(self, check):
        self.check = check
        self.repo = check.repo
        self.paths = {}      # func key -> (interp, paths)
        self.ret_alias = {}  # func key -> dict position|'*' -> set(param names) ; missing = fresh
        self.mutates = {}    # func key -> dict param -> (node, description)
        self.cg = CallGraph(self.repo)
        keys = self.cg.closure(['%s:%s' % (SIG, n) for n in PUBLIC])
        self.funcs = [self.repo.func(k) for k in keys]
        for fi in self.funcs:
            self._run(fi)
        self._fixpoint()

    def _run(self, fi):
        if fi.key in self.paths:
            return
        it = Interp(self.repo, Policy(try_forks=False))
        try:
            ps = it.run(fi)
        except Inconclusive:
            ps = []
        self.paths[fi.key] = (it, ps)
        self.check.absorb(it)
        self.check.analysed(fi)

    # -- provenance of a term inside function fi --------------------------------------
    def prov(self, fi, t, it, depth=0):
        """set of parameter names (or SHARED) whose storage t may be a handle on; empty = fresh"""
        if depth > 14 or t is None:
            return set()
        k = t[0]
        if k == 'P':
            return set([t[1]])
        if k in ('K', 'L', 'D', 'SET', 'O', 'FN', 'CLS', 'BI', 'EXT', 'MOD', 'LAMBDA', 'CLOSURE', 'IDX', 'COND', 'TOP', 'G', 'EXC'):
            return set()
        if k in ('GLOB', 'SHARED_DEFAULT', 'FREE'):
            return set([SHARED])
        if k in ('A', 'SL', 'E', 'IT', 'STAR', 'DSTAR'):
            return self.prov(fi, t[1], it, depth + 1)
        if k == 'N':
            return self.prov(fi, t[1], it, depth + 1)
        if k == 'S':
            base = t[1]
            # position-sensitive summaries of package functions returning tuples
            if base[0] == 'C' and isinstance(base[1], str) and ':' in base[1] and t[2][0] == 'K' and isinstance(t[2][1], int):
                return self._call_prov(fi, base, it, depth, pos=t[2][1])
            return self.prov(fi, base, it, depth + 1)
        if k == 'V':
            init = t[3]
            return self.prov(fi, init, it, depth + 1) if isinstance(init, tuple) else set()
        if k == 'T':
            out = set()
            for x in t[1]:
                out |= self.prov(fi, x, it, depth + 1)
            return out
        if k == 'B':
            if t[1] in ('and', 'or'):
                return self.prov(fi, t[2], it, depth + 1) | self.prov(fi, t[3], it, depth + 1)
            return set()
        if k == 'IF':
            return self.prov(fi, t[2], it, depth + 1) | self.prov(fi, t[3], it, depth + 1)
        if k == 'U':
            return set()
        if k == 'M':
            if t[2] in METHOD_FRESH:
                return set()
            if t[2] in METHOD_ALIAS:
                out = self.prov(fi, t[1], it, depth + 1)
                # dict.get(k, default): the default may be returned
                for a in t[3][1:]:
                    out |= self.prov(fi, a, it, depth + 1)
                return out
            return set()
        if k == 'C':
            return self._call_prov(fi, t, it, depth, pos=None)
        return set()

    def _call_prov(self, fi, t, it, depth, pos=None):
        name = t[1]
        if not isinstance(name, str):
            return set()
        if ':' in name:
            g = self.repo.func(name, required=False)
            if g is None:
                return set()
            ra = self.ret_alias.get(g.key)
            if ra is None:
                return set()
            aliased = set()
            if pos is not None and pos in ra:
                aliased |= ra[pos]
            elif pos is not None and '*' not in ra:
                return set()
            if '*' in ra:
                aliased |= ra['*']
            if pos is None:
                for v in ra.values():
                    aliased |= v
            if not aliased:
                return set()
            b = _bind(g, t[2], t[3])
            out = set()
            if b is None:
                for a in t[2]:
                    out |= self.prov(fi, a, it, depth + 1)
                return out
            for pname in aliased:
                if pname == SHARED:
                    out.add(SHARED)
                elif pname in b:
                    out |= self.prov(fi, b[pname], it, depth + 1)
            return out
        if name in EXT_FRESH:
            return set()
        if name in EXT_PASSTHROUGH or name.split('.')[-1] in ('zip_longest', 'chain', 'from_iterable'):
            out = set()
            for a in t[2]:
                out |= self.prov(fi, a, it, depth + 1)
            return out
        return set()

    # -- summaries ----------------------------------------------------------------
    def _fixpoint(self):
        for fi in self.funcs:
            self.ret_alias[fi.key] = {}
            self.mutates[fi.key] = {}
        changed = True
        rounds = 0
        while changed and rounds < 12:
            changed = False
            rounds += 1
            for fi in self.funcs:
                it, ps = self.paths[fi.key]
                ra = self.ret_alias[fi.key]
                mu = self.mutates[fi.key]
                for p in ps:
                    if p.status == 'return' and p.value is not None:
                        v = p.value
                        items = None
                        if v[0] == 'T':
                            items = v[1]
                        elif v[0] == 'C' and 'SortedParameters' in str(v[1]):
                            items = v[2]
                        if items is not None:
                            for i, x in enumerate(items):
                                pr = self.prov(fi, x, it)
                                if pr - ra.get(i, set()):
                                    ra[i] = ra.get(i, set()) | pr
                                    changed = True
                        else:
                            pr = self.prov(fi, v, it)
                            if pr - ra.get('*', set()):
                                ra['*'] = ra.get('*', set()) | pr
                                changed = True
                    for e, g in walk_effects(p.effects):
                        if e.kind == 'yield':
                            pr = self.prov(fi, e.target, it)
                            if pr - ra.get('*', set()):
                                ra['*'] = ra.get('*', set()) | pr
                                changed = True
                        targets = []
                        if e.kind == 'mut':
                            targets.append((e.target, '%s()' % e.op))
                        elif e.kind in ('store_attr', 'del_attr'):
                            targets.append((e.target, '%s .%s' % ('assignment to' if e.kind == 'store_attr' else 'deletion of', e.op)))
                        elif e.kind == 'call' and e.extra == 'package':
                            g2 = self.repo.func(e.op, required=False)
                            if g2 is not None and self.mutates.get(g2.key):
                                b = _bind(g2, e.args, e.kws)
                                for pname, why in self.mutates[g2.key].items():
                                    if pname == SHARED:
                                        targets.append((('GLOB', '<shared>', 'state'), 'via %s(): %s' % (g2.name, why[1])))
                                    elif b is not None and pname in b:
                                        targets.append((b[pname], 'passed to %s(), which mutates its %s (%s)' % (g2.name, pname, why[1])))
                                    elif b is not None and _mutable_default(g2, pname):
                                        targets.append((('SHARED_DEFAULT', g2.key, pname), '%s() mutates its mutable default argument %s, '
                                                        'shared by all calls (%s)' % (g2.name, pname, why[1])))
                                    elif b is None:
                                        for a in e.args:
                                            targets.append((a, 'passed to %s(), which mutates its %s' % (g2.name, pname)))
                        elif e.kind == 'call' and e.extra == 'new':
                            ci = self.repo.cls(e.op, required=False)
                            init = self.repo.lookup_method(ci, '__init__') if ci else None
                            if init is not None and self.mutates.get(init.key):
                                b = _bind(init, (e.result,) + tuple(e.args), e.kws)
                                for pname, why in self.mutates[init.key].items():
                                    if b is not None and pname in b:
                                        targets.append((b[pname], 'passed to %s(), which mutates it' % ci.name))
                        for t, how in targets:
                            # storing into attributes of self inside methods is the object's own state
                            pr = self.prov(fi, t, it)
                            selfname = fi.params()[0][0] if (fi.cls is not None and fi.params()[0]) else None
                            for pname in pr:
                                if pname == selfname and e.kind in ('store_attr', 'del_attr') and e.target == ('P', selfname):
                                    continue
                                if pname not in mu:
                                    mu[pname] = (e.node, how, show(t)[:80])
                                    changed = True


def rule_inputs_not_mutated(check, rule):
    al = Alias(check)
    n = 0
    for name in PUBLIC:
        fi = check.repo.func('%s:%s' % (SIG, name))
        mu = al.mutates.get(fi.key, {})
        pos, vararg, kwonly, kwarg = fi.params()
        for pname in pos + kwonly + [x for x in (vararg, kwarg) if x]:
            n += 1
            key = '%s|mutates:%s' % (fi.key, pname)
            if pname in mu:
                node, how, what = mu[pname]
                check.violation(rule, site_of(fi, node), '%s() modifies what its argument %r refers to: %s on %s' % (name, pname, how, what),
                                key=key, witness='input signatures, parameters and provenance maps must be left unchanged')
            else:
                check.holds(rule, site_of(fi, fi.node), '%s() performs no mutation through its argument %r' % (name, pname), key=key)
        if SHARED in mu:
            node, how, what = mu[SHARED]
            check.violation(rule, site_of(fi, node), '%s() modifies shared state (module-level object or mutable default): %s on %s' % (name, how, what),
                            key='%s|mutates-shared' % fi.key)
    # the classification hands out private containers
    sp = check.repo.func(SIG + ':sort_params')
    ra = al.ret_alias.get(sp.key, {})
    for i in range(6):
        key = '%s|fresh:%d' % (sp.key, i)
        if i in (2, 4):
            continue     # star parameters are immutable Parameter objects or None
        if ra.get(i) or ra.get('*'):
            check.violation(rule, site_of(sp, sp.node), 'position %d of the classification is a handle on the input (%s), and mask()/embed() edit '
                            'these containers in place' % (i, ', '.join(sorted((ra.get(i) or set()) | (ra.get('*') or set())))), key=key,
                            witness='mask(sig, 1) must not delete entries of sig.sources')
        else:
            check.holds(rule, site_of(sp, sp.node), 'position %d of the classification is a private container' % i, key=key)
    check.floor(rule, 'arguments of the public operations', n, 12)
    return al


def rule_results_not_shared(check, rule, al=None):
    """C16.R2: the provenance map of every result is private"""
    al = al or Alias(check)
    repo = check.repo
    ap = repo.func(SIG + ':apply_params')
    it, ps = al.paths[ap.key]
    pos = ap.params()[0]
    sigp = pos[0]
    n = 0
    seen = set()
    src_param = None
    for p in ps:
        if p.status != 'return':
            continue
        n += 1
        v = p.value
        stores = [e for e in p.effects if e.kind == 'store_attr' and e.target == v and e.op == 'sources']
        via_kw = None
        for e in p.effects:
            if e.kind == 'call' and e.result == v:
                via_kw = dict(e.kws).get('sources')
        lits = ' & '.join(show_lit(l) for l in p.lits if l[0][0] in ('isnone', 'truthy') and 'sources' in show_lit(l))
        key = '%s|result-sources|%s' % (ap.key, lits)
        if key in seen:
            continue
        seen.add(key)
        node = [e for e in p.effects if e.kind == 'return'][-1].node
        val = stores[-1].args[0] if stores else via_kw
        if val is None:
            check.violation(rule, site_of(ap, node), 'on this path apply_params returns what sig.replace() built without giving it a provenance map '
                            'of its own: replace() keeps the receiver\'s map, so the result shares it with the input signature', key=key,
                            guards=lits, witness='apply_params(s, *sort_params(s)).sources is s.sources')
            continue
        pr = al.prov(ap, val, it)
        if sigp in pr or SHARED in pr:
            check.violation(rule, site_of(ap, node), 'the result\'s provenance map is a handle on %s' % ', '.join(sorted(pr)), key=key, guards=lits,
                            witness='apply_params(s, *sort_params(s)).sources is s.sources')
        elif pr:
            src_param = sorted(pr)[0]
            check.holds(rule, site_of(ap, node), 'the result gets the map passed as %r (callers are checked to pass a private one)' % src_param,
                        key=key, guards=lits)
        else:
            check.holds(rule, site_of(ap, node), 'the result gets a fresh provenance map', key=key, guards=lits)
    check.floor(rule, 'returning paths of apply_params', n, 2)
    # callers inside the algebra pass a private map
    for name in ('merge', 'embed', '_mask'):
        fi = repo.func('%s:%s' % (SIG, name))
        it2, ps2 = al.paths.get(fi.key, (None, []))
        if it2 is None:
            al._run(fi)
            it2, ps2 = al.paths[fi.key]
        seen2 = set()
        for p in ps2:
            if p.status != 'return':
                continue
            v = p.value
            if not (v[0] == 'C' and str(v[1]).endswith(':apply_params')):
                continue
            b = _bind(ap, v[2], v[3])
            key = '%s|passes-private-map' % fi.key
            arg = None
            if b is not None and src_param:
                arg = b.get(src_param)
            elif b is None:
                stars = [a for a in v[2] if a[0] == 'STAR']
                arg = stars[0][1] if stars else None
            if arg is None:
                if key not in seen2:
                    seen2.add(key)
                    check.violation(rule, site_of(fi, fi.node), '%s() calls apply_params without a provenance map: the result shares the map of its '
                                    'first input' % name, key=key, witness='%s(a, b).sources is a.sources' % name)
                continue
            pr = al.prov(fi, arg, it2)
            k2 = key + '|' + ','.join(sorted(pr))
            if k2 in seen2:
                continue
            seen2.add(k2)
            node = [e for e in p.effects if e.kind == 'return'][-1].node
            if pr:
                check.violation(rule, site_of(fi, node), '%s() hands apply_params a provenance map that is a handle on its input %s'
                                % (name, ', '.join(sorted(pr))), key=key, witness='%s(a, b).sources must be private' % name)
            else:
                check.holds(rule, site_of(fi, node), '%s() hands apply_params a private provenance map' % name, key=key)
    # every result of the public operations comes from apply_params (directly or through another operation):
    # a shortcut that returns `sig.replace(...)` or the input itself hands out the input's own map
    BUILDERS = (':apply_params', ':_mask', ':embed', ':mask', ':merge', ':forwards')
    for name in ('merge', 'embed', 'mask', 'forwards', '_mask'):
        fi = repo.func('%s:%s' % (SIG, name))
        if fi.key not in al.paths:
            al._run(fi)
        it2, ps2 = al.paths[fi.key]
        seen2 = set()
        nret = 0
        for p in ps2:
            if p.status != 'return':
                continue
            nret += 1
            v = p.value
            node = [e for e in p.effects if e.kind == 'return'][-1].node
            key = '%s|result-built-by|%s' % (fi.key, norm(node)[:80])
            if key in seen2:
                continue
            seen2.add(key)
            if v[0] == 'C' and isinstance(v[1], str) and v[1].endswith(BUILDERS):
                check.holds(rule, site_of(fi, node), '%s() returns what %s built (private provenance map)' % (name, v[1].split(':')[-1]), key=key)
                continue
            pr = al.prov(fi, v[1], it2) if v[0] == 'M' and v[2] == 'replace' else al.prov(fi, v, it2)
            if pr:
                check.violation(rule, site_of(fi, node), '%s() returns %s on this path: %s, so the result shares the provenance map (and its '
                                'lists) of the input %s' % (name, show(v)[:60], 'replace() keeps the receiver\'s map' if v[0] == 'M' else
                                                          'the input object itself', ', '.join(sorted(pr))),
                                key=key, guards=' & '.join(show_lit(l) for l in p.lits)[:200],
                                witness='%s(sig).sources is sig.sources' % name)
            else:
                check.inconclusive(rule, site_of(fi, node), '%s() returns %s: not recognised as built by apply_params' % (name, show(v)[:80]), key=key)
        check.floor(rule, 'returning paths of %s' % name, nret, 1)
    # copy_sources is deep: fresh lists per entry (C08.R5 checks the rest)
    cs = repo.func(SIG + ':copy_sources')
    it3, ps3 = al.paths.get(cs.key, (None, []))
    if it3 is not None:
        ra = al.ret_alias.get(cs.key, {})
        key = '%s|fresh' % cs.key
        if ra.get('*'):
            check.violation(rule, site_of(cs, cs.node), 'copy_sources returns a handle on %s' % ', '.join(sorted(ra['*'])), key=key,
                            witness='copy_sources(m) is not m')
        else:
            check.holds(rule, site_of(cs, cs.node), 'copy_sources returns a fresh map', key=key)
        deep = False
        for p in ps3:
            if p.status == 'return':
                init = it3.obj_init.get(p.value)
                if init is not None:
                    for s in subterms(init):
                        if s[0] == 'L' and s in it3.obj_init:
                            deep = True
        # the nested '+depths' map must be rebuilt on every path
        nested_ok = True
        bad_node = None
        for p in ps3:
            if p.status != 'return':
                continue
            sets = [e for e in p.effects if e.kind == 'mut' and e.target == p.value and e.op == 'setitem' and e.args[0] == K('+depths')]
            if not sets:
                continue
            pr = al.prov(cs, sets[-1].args[1], it3)
            if pr:
                nested_ok = False
                bad_node = sets[-1].node
        key = '%s|depths-private' % cs.key
        if nested_ok:
            check.holds(rule, site_of(cs, cs.node), "the nested '+depths' map is rebuilt on every path", key=key)
        else:
            check.violation(rule, site_of(cs, bad_node), "on some path copy_sources reuses the input's '+depths' map: results of mask()/merge() of a "
                            "single signature then share it with the input", key=key,
                            witness="mask(sig, 1).sources['+depths'] is sig.sources['+depths']")
        key = '%s|deep' % cs.key
        if deep:
            check.holds(rule, site_of(cs, cs.node), 'every per-parameter list is rebuilt', key=key)
        else:
            check.violation(rule, site_of(cs, cs.node), 'copy_sources copies the map but shares the per-parameter lists', key=key,
                            witness="copy_sources(m)['a'] is m['a']")


def rule_classification_fresh(check, rule, al=None):
    """The bucket containers handed out by sort_params (positional-only list, positional-or-keyword list, keyword-only map)
    are created by that call.  _mask pops from them and _embed/_Merger results are built from them in place; containers that
    are a handle on something stored on the signature object (a cache of the classification, the signature's own mapping)
    are edited for every later user of that signature: the second retrieval of the same wrapper already sees fewer
    parameters."""
    al = al or Alias(check)
    repo = check.repo
    sp = repo.func(SIG + ':sort_params')
    check.analysed(sp)
    ra = al.ret_alias.get(sp.key, {})
    names = {0: 'positional-only list', 1: 'positional-or-keyword list', 3: 'keyword-only map'}
    shared = set(ra.get('*') or set())
    for pos, what in names.items():
        key = '%s|fresh-bucket|%d' % (sp.key, pos)
        got = set(ra.get(pos) or set()) | shared
        if got:
            check.violation(rule, site_of(sp, sp.node), 'the %s returned by sort_params is a handle on %s, not a container of its own: '
                            'mask() consumes parameters from it in place, so the signature object it came from is altered for every later '
                            'retrieval' % (what, ', '.join(sorted(got))), key=key,
                            witness='retrieve the signature of a forwards_to wrapper over a modifiers-wrapped inner twice: the second result has lost a parameter')
        else:
            check.holds(rule, site_of(sp, sp.node), 'the %s returned by sort_params is created by the call' % what, key=key)
