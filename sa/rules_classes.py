"""Class-protocol rules (E10): C14 (drop-in inspect objects) and C11 (upgraded annotations)."""
import ast

from .index import Inconclusive, norm
from .interp import Interp, Policy, show, show_lit, walk_effects, K, NONE, subterms, mentions
from .callgraph import _own_nodes

SIG = '_signatures'
UPGRADED = ['UpgradedSignature', 'UpgradedParameter']


def site_of(fi, node):
    return '%s %s' % (fi.loc(node), fi.key)


def added_slots(ci):
    """names a class adds to the __slots__ of its base"""
    v = ci.assigns.get('__slots__')
    if v is None:
        return None
    out = []
    for n in ast.walk(v):
        if isinstance(n, (ast.Tuple, ast.List)):
            for e in n.elts:
                if isinstance(e, ast.Constant) and isinstance(e.value, str):
                    out.append(e.value)
    return out


def rule_eq_totality(check, rule, rule_hash):
    """C14.R1/R2"""
    repo = check.repo
    n = 0
    for m in repo.modules.values():
        for ci in m.classes.values():
            eq = ci.methods.get('__eq__')
            if eq is None:
                continue
            n += 1
            check.analysed(eq)
            pos = eq.params()[0]
            if len(pos) < 2:
                continue
            other = pos[1]
            it = Interp(repo, Policy())
            paths = it.run(eq)
            check.absorb(it)
            ot = ('P', other)
            bases = repo.ext_bases(ci)
            inspect_base = any('funcsigs' in b or 'inspect' in b for b in bases)
            problems = []
            # (a) the result of super().__eq__ must be tested against NotImplemented before it is used as a bool
            sup = None
            for p in paths:
                for e in p.effects:
                    if e.kind == 'call' and e.op == '.__eq__' and e.target[0] == 'C' and e.target[1] == 'super':
                        sup = e.result
            for p in paths:
                lits = list(p.lits)
                seen_ni = False
                for atom, pol in lits:
                    if sup is not None and atom[0] == 'is' and sup in (atom[1], atom[2]) and \
                            any(show(x).endswith('NotImplemented') for x in (atom[1], atom[2])):
                        seen_ni = True
                    if sup is not None and atom == ('truthy', sup) and not seen_ni:
                        problems.append(('ni', 'the result of super().__eq__() is used as a bool without testing for NotImplemented '
                                               '(NotImplemented is truthy: comparing with a foreign object goes on to read its attributes)'))
                # (a') a path on which super().__eq__() may have answered NotImplemented must hand that answer on unchanged:
                # replacing it by a bool cuts off the reflected comparison of the other operand (x == y and y == x differ)
                if sup is not None and p.status == 'return' and p.value is not None and p.value[0] == 'K' and isinstance(p.value[1], bool):
                    excluded = False
                    for atom, pol in lits:
                        if atom[0] == 'is' and sup in (atom[1], atom[2]):
                            o_ = atom[2] if atom[1] == sup else atom[1]
                            if show(o_).endswith('NotImplemented') and not pol:
                                excluded = True
                            if o_ in (K(True), K(False)) and pol:
                                excluded = True
                        if atom == ('truthy', sup) and not pol:
                            excluded = True
                        if atom[0] == 'isinstance' and atom[1] == sup and pol and 'bool' in str(atom[2]):
                            excluded = True
                    if not excluded:
                        problems.append(('reflect', 'returns %r on a path where super().__eq__() may have returned NotImplemented: the other '
                                                    'operand\'s reflected __eq__ is never consulted, so x == y and y == x can differ'
                                         % p.value[1]))
                # (b) attribute reads on `other` beyond the base class must be dominated by isinstance(other, <own class>)
                guarded = any(atom[0] == 'isinstance' and atom[1] == ot and pol for atom, pol in lits)
                reads = set()
                for e, g in walk_effects(p.effects):
                    for t in list(e.args) + ([e.target] if e.target else []) + [v for _, v in e.kws]:
                        if t is None:
                            continue
                        for s in subterms(t):
                            if s[0] == 'A' and s[1] == ot:
                                reads.add(s[2])
                            if s[0] == 'M' and s[1] == ot:
                                reads.add(s[2])
                if p.value is not None:
                    for s in subterms(p.value):
                        if s[0] == 'A' and s[1] == ot:
                            reads.add(s[2])
                        if s[0] == 'M' and s[1] == ot:
                            reads.add(s[2])
                for atom, pol in lits:
                    for x in atom[1:]:
                        if isinstance(x, tuple):
                            for s in subterms(x):
                                if s[0] == 'A' and s[1] == ot:
                                    reads.add(s[2])
                own = set(added_slots(ci) or []) | set(ci.methods) | set(['source_value'])
                foreign = [r for r in reads if r in own]
                if foreign and not guarded:
                    problems.append(('attr', 'reads other.%s without a dominating isinstance(other, %s) test' % (sorted(foreign)[0], ci.name)))
            # (c) an 'equal' verdict behind the isinstance guard must have compared the
            # added slot of *both* operands (otherwise a == b and b == a can differ)
            selft = ('P', pos[0])
            slots_ = added_slots(ci) or []
            for p in paths:
                if p.status != 'return':
                    continue
                guarded = any(atom[0] == 'isinstance' and atom[1] == ot and pol and ci.name in str(atom[2]) for atom, pol in p.lits)
                if not guarded:
                    continue
                v = p.value
                both = False
                for t in [v] + [x for atom, pol in p.lits for x in atom[1:] if isinstance(x, tuple)]:
                    ms = any(isinstance(s_, tuple) and s_[0] == 'A' and s_[1] == selft and s_[2] in slots_ for s_ in subterms(t))
                    mo = any(isinstance(s_, tuple) and s_[0] == 'A' and s_[1] == ot and s_[2] in slots_ for s_ in subterms(t))
                    if ms and mo:
                        both = True
                if v == K(True) or (v[0] == 'COND' and not both):
                    # verdict True reached: which slot tests led here?
                    one_sided = [show_lit((atom, pol)) for atom, pol in p.lits
                                 if any(isinstance(s_, tuple) and s_[0] == 'A' and s_[1] in (selft, ot) and s_[2] in slots_
                                        for x in atom[1:] if isinstance(x, tuple) for s_ in subterms(x))
                                 and not (any(isinstance(s_, tuple) and s_[0] == 'A' and s_[1] == selft for x in atom[1:] if isinstance(x, tuple) for s_ in subterms(x))
                                          and any(isinstance(s_, tuple) and s_[0] == 'A' and s_[1] == ot for x in atom[1:] if isinstance(x, tuple) for s_ in subterms(x)))]
                    if v == K(True) and one_sided and not both:
                        problems.append(('sym', 'declares two %s objects equal after looking at the added slot of one operand only (%s): '
                                                'a == b and b == a can differ' % (ci.name, one_sided[0][:80])))
            key = '%s|__eq__' % ci.key
            st = site_of(eq, eq.node)
            if problems:
                for kind, msg in sorted(set(problems)):
                    check.violation(rule, st, '%s.__eq__ %s' % (ci.name, msg), key=key + '|' + kind,
                                    witness='%s == None / == a plain inspect object raises AttributeError' % ci.name)
            else:
                check.holds(rule, st, '%s.__eq__ reads the other operand only behind isinstance / NotImplemented tests' % ci.name, key=key)
            # R2 hashability
            key = '%s|__hash__' % ci.key
            has_hash = '__hash__' in ci.methods or '__hash__' in ci.assigns
            hashable_base = inspect_base
            if has_hash:
                v = ci.assigns.get('__hash__')
                hm = ci.methods.get('__hash__')
                if v is not None and isinstance(v, ast.Constant) and v.value is None:
                    check.violation(rule_hash, st, '%s sets __hash__ = None' % ci.name, key=key,
                                    witness='hash(sigtools.signature(f)) raises TypeError')
                elif hm is not None and inspect_base:
                    # equal to the plain inspect object carrying the same data => must hash like it: only delegation to the
                    # base hash is consistent; anything computed from what this class adds differs from the plain hash
                    selfh = hm.params()[0][0]
                    own_reads = sorted(set(n_.attr for n_ in ast.walk(hm.node) if isinstance(n_, ast.Attribute) and isinstance(n_.value, ast.Name)
                                           and n_.value.id == selfh and (n_.attr in (added_slots(ci) or []) or n_.attr in ci.methods)))
                    delegates = [n_ for n_ in ast.walk(hm.node) if isinstance(n_, ast.Attribute) and n_.attr == '__hash__']
                    rets = [n_ for n_ in ast.walk(hm.node) if isinstance(n_, ast.Return)]
                    pure_deleg = len(rets) == 1 and isinstance(rets[0].value, ast.Call) and isinstance(rets[0].value.func, ast.Attribute) \
                        and rets[0].value.func.attr == '__hash__' and not own_reads
                    if own_reads:
                        check.violation(rule_hash, site_of(hm, hm.node), '%s.__hash__ is computed from %s, which the plain inspect object it compares '
                                        'equal to does not have: equal objects hash differently (and the hash can raise where the plain one '
                                        'does not)' % (ci.name, ', '.join('self.' + a for a in own_reads)), key=key,
                                        witness='sigtools.signature(f) == inspect.signature(f) but their hashes differ (postponed annotations)')
                    elif pure_deleg:
                        check.holds(rule_hash, site_of(hm, hm.node), '%s.__hash__ delegates to the base hash' % ci.name, key=key)
                    else:
                        check.inconclusive(rule_hash, site_of(hm, hm.node), '%s.__hash__ is a method that neither delegates to the base hash nor reads '
                                           'the added slots: consistency with the plain objects not decided' % ci.name, key=key)
                else:
                    check.holds(rule_hash, st, '%s defines __hash__ next to __eq__' % ci.name, key=key)
            elif hashable_base:
                check.violation(rule_hash, st, '%s overrides __eq__ without defining __hash__: Python sets __hash__ to None although '
                                'inspect.%s is hashable' % (ci.name, ci.name.replace('Upgraded', '')), key=key,
                                witness='hash(sigtools.signature(f)) raises TypeError: unhashable type')
            else:
                check.holds(rule_hash, st, '%s: no hashable base to stay compatible with' % ci.name, key=key, nontrivial=False)
    check.floor(rule, 'classes overriding __eq__', n, 1)


def _falsy_is_legit(ci, pname):
    """does the class itself use an empty container as a value of this constructor parameter (its default in
    __init__ is an empty list/dict/tuple display)?  Then an empty value is a legitimate explicit override."""
    init = ci.methods.get('__init__')
    if init is None:
        return False
    a = init.node.args
    for arg, d in list(zip(a.kwonlyargs, a.kw_defaults)) + list(zip((a.posonlyargs + a.args)[::-1], a.defaults[::-1])):
        if arg.arg == pname and d is not None:
            if isinstance(d, (ast.List, ast.Dict, ast.Tuple, ast.Set)) and not (getattr(d, 'elts', None) or getattr(d, 'keys', None)):
                return True
    # ... or `kwargs.pop('<name>', {})` inside __init__
    for n in ast.walk(init.node):
        if isinstance(n, ast.Call) and isinstance(n.func, ast.Attribute) and n.func.attr in ('pop', 'get') and len(n.args) == 2 \
                and isinstance(n.args[0], ast.Constant) and n.args[0].value == pname:
            d = n.args[1]
            if isinstance(d, (ast.List, ast.Dict, ast.Tuple, ast.Set)) and not (getattr(d, 'elts', None) or getattr(d, 'keys', None)):
                return True
    return False


def _through_choice_helper(repo, v):
    """`helper(x, self.x)` where the helper is a one-liner returning `a or b` / `a if a else b` of its two parameters is read as
    `x or self.x` (the choice by truthiness is then made in the helper, e.g. _util.unset_or)"""
    if not (v[0] == 'C' and isinstance(v[1], str) and ':' in v[1] and len(v[2]) == 2 and not v[3]):
        return v
    h = repo.func(v[1], required=False)
    if h is None or h.cls is not None:
        return v
    rets = [n for n in ast.walk(h.node) if isinstance(n, ast.Return) and n.value is not None]
    ps = h.params()[0]
    if len(rets) != 1 or len(ps) != 2:
        return v
    r = rets[0].value
    if isinstance(r, ast.BoolOp) and isinstance(r.op, ast.Or) and [getattr(x, 'id', None) for x in r.values] == ps:
        return ('B', 'or', v[2][0], v[2][1])
    if isinstance(r, ast.IfExp) and isinstance(r.test, ast.Name) and r.test.id == ps[0] and getattr(r.body, 'id', None) == ps[0] \
            and getattr(r.orelse, 'id', None) == ps[1]:
        return ('B', 'or', v[2][0], v[2][1])
    return v


def rule_replace_and_slots(check, rule, classes=UPGRADED, only_base_overrides=False):
    """C11.R1 / C14.R3: replace() and __init__ re-establish every added slot"""
    repo = check.repo
    for cname in classes:
        ci = repo.cls('%s:%s' % (SIG, cname))
        slots = added_slots(ci)
        if not slots:
            raise Inconclusive('%s: __slots__ extension not found' % cname)
        for mname in (() if only_base_overrides else ('replace', '__init__')):
            m = ci.methods.get(mname)
            if m is None:
                check.violation(rule, '%s:%d' % (ci.module.relpath, ci.node.lineno), '%s does not define %s although it adds slots %s'
                                % (cname, mname, slots), key='%s|%s|missing' % (ci.key, mname))
                continue
            check.analysed(m)
            it = Interp(repo, Policy(try_forks=True))
            paths = it.run(m)
            check.absorb(it)
            selft = ('P', m.params()[0][0])
            n = 0
            seen = set()
            for p in paths:
                if p.status != 'return' and not (mname == '__init__' and p.status == 'fall'):
                    continue
                n += 1
                recv = selft
                if mname == 'replace':
                    recv = p.value
                    # the result must come from super().replace
                    k = '%s|replace|super' % ci.key
                    if k not in seen:
                        seen.add(k)
                        if recv[0] == 'M' and recv[2] == 'replace' and recv[1][0] == 'C' and recv[1][1] == 'super':
                            check.holds(rule, site_of(m, m.node), '%s.replace obtains its result from super().replace (type(self) is constructed)' % cname, key=k)
                        else:
                            check.violation(rule, site_of(m, m.node), '%s.replace returns %s, not the result of super().replace' % (cname, show(recv)[:80]), key=k,
                                            witness='replace() must return the upgraded type')
                stores = {}
                for e in p.effects:
                    if e.kind == 'store_attr' and e.target == recv:
                        stores[e.op] = e.args[0]
                for s_ in slots:
                    k = '%s|%s|slot:%s' % (ci.key, mname, s_)
                    if s_ not in stores:
                        if k not in seen:
                            seen.add(k)
                            check.violation(rule, site_of(m, m.node), '%s.%s does not assign the added slot %r on the object it %s'
                                            % (cname, mname, s_, 'returns' if mname == 'replace' else 'initialises'), key=k,
                                            guards=' & '.join(show_lit(l) for l in p.lits)[:200],
                                            witness='mask()/embed() results lose %s: AttributeError on access' % s_)
                        continue
                    v = stores[s_]
                    if mname == 'replace' and v[0] == 'IF':
                        # `x = self.x if <arg> is UNSET else <arg>`: the argument tested must be the one selected
                        c = v[1]
                        tested = None
                        if c[0] == 'lit' and c[1][0] in ('is', 'eq', 'isnone'):
                            for x in c[1][1:]:
                                if isinstance(x, tuple) and x[0] == 'P' and x != selft:
                                    tested = x
                        chosen = [x for x in (v[2], v[3]) if x[0] == 'P' and x != selft]
                        if tested is not None and chosen and tested not in chosen:
                            k3 = k + '|selection'
                            if k3 not in seen:
                                seen.add(k3)
                                check.violation(rule, site_of(m, m.node), '%s.replace selects the value of %r by testing the argument %r but then '
                                                'uses the argument %r' % (cname, s_, tested[1], chosen[0][1]), key=k3, effect=show(v)[:160],
                                                witness='p.replace(%s=x) must store x; p.replace(%s=y) must keep %s'
                                                        % (chosen[0][1], tested[1], s_))
                            continue
                    if mname == 'replace':
                        v = _through_choice_helper(repo, v)
                        # the choice between override and receiver's value must not depend on the truthiness of the override:
                        # `x or self.x` / `x if x else self.x` ignore an explicitly passed empty list / dict / None
                        truthy_sel = None
                        if v[0] == 'B' and v[1] == 'or' and v[2][0] == 'P' and v[2] != selft:
                            truthy_sel = v[2]
                        if v[0] == 'B' and v[1] == 'or' and v[2][0] == 'M' and v[2][2] in ('pop', 'get') and v[2][3] and v[2][3][0][0] == 'K':
                            truthy_sel = ('P', v[2][3][0][1])      # `kwargs.pop('sources', None) or self.sources`
                        if v[0] == 'IF' and v[1][0] == 'lit' and v[1][1][0] == 'truthy' and v[1][1][1][0] == 'P' and v[1][1][1] != selft:
                            truthy_sel = v[1][1][1]
                        for atom, pol in p.lits:
                            if atom[0] == 'truthy' and atom[1][0] == 'P' and atom[1] != selft and (v == atom[1] or v == ('A', selft, s_)):
                                truthy_sel = atom[1]
                        if truthy_sel is not None and not _falsy_is_legit(ci, truthy_sel[1]):
                            truthy_sel = None       # e.g. annotation wrappers: every legitimate value is truthy, `or` is harmless
                        if truthy_sel is not None:
                            k4 = k + '|falsy-override'
                            if k4 not in seen:
                                seen.add(k4)
                                check.violation(rule, site_of(m, m.node), '%s.replace keeps the receiver\'s %r whenever the argument %r is falsy: an '
                                                'explicitly passed empty value (sources=[], source_depths={}, function=None) is silently ignored'
                                                % (cname, s_, truthy_sel[1]), key=k4, effect=show(v)[:120],
                                                witness='p.replace(sources=[]).sources == []')
                            continue
                        # the receiver's value is kept *as it is* (or as an equal copy): a package function applied to it on the way
                        # (copy_sources adds a '+depths' entry, swaps functions, shifts depths) makes `x.replace()` differ from `x`
                        reshaped = [s2 for s2 in subterms(v) if isinstance(s2, tuple) and s2 and s2[0] == 'C' and isinstance(s2[1], str) and ':' in s2[1]
                                    and any(mentions(a_, ('A', selft, s_)) for a_ in s2[2])]
                        if reshaped:
                            k5 = k + '|reshaped'
                            if k5 not in seen:
                                seen.add(k5)
                                check.violation(rule, site_of(m, m.node), '%s.replace does not keep the receiver\'s %r as it is when no override is given: it '
                                                'passes it through %s(), so `x.replace()` need not equal `x` (copy_sources, for one, adds a \'+depths\' '
                                                'entry to a map that has none)' % (cname, s_, reshaped[0][1].split(':')[-1]), key=k5, effect=show(v)[:120],
                                                witness="UpgradedSignature(params).replace().sources == {}")
                            continue
                        # defaults to the receiver's value, overridden by the argument
                        # (a container built here from the receiver's value or from the argument -- the provenance map restricted to the
                        # parameters that are left, D47 -- counts as that value)
                        v_ = v
                        if v[0] in ('D', 'L', 'SET') and it.obj_init.get(v) is not None:
                            v_ = it.obj_init.get(v)
                        from_self = mentions(v_, ('A', selft, s_))
                        lits = dict(p.lits)
                        overridden = any(isinstance(x, tuple) and x[0] == 'P' for x in subterms(v_)) or v[0] == 'M' or \
                            any(a[0] in ('raises',) for a in lits)
                        # (round 8) ... by *its own* argument: a value built from another override (the raw annotation re-wrapped as an
                        # upgraded one, say) is neither the receiver's value nor what the caller passed for this slot
                        own_names = (s_, s_.lstrip('_'))
                        foreign = [x for x in subterms(v_) if isinstance(x, tuple) and x and (
                            (x[0] == 'P' and x[1] not in own_names + ('kwargs', selft[1])) or
                            (x[0] in ('S', 'M') and len(x) > 2 and isinstance(x[1], tuple) and x[1] == ('P', 'kwargs') and
                             not any(k_ in repr(x) for k_ in own_names)))]
                        built = [x for x in subterms(v_) if isinstance(x, tuple) and x and x[0] in ('C', 'O') and isinstance(x[1], str) and ':' in x[1]]
                        if overridden and not from_self and foreign and built:
                            k6 = k + '|derived'
                            if k6 not in seen:
                                seen.add(k6)
                                check.violation(rule, site_of(m, m.node), '%s.replace builds %r from another override (%s) through %s: the slot is neither kept nor '
                                                'given by the caller, and what is built need not denote what the override denotes'
                                                % (cname, s_, show(foreign[0])[:40], built[0][1].split(':')[-1]), key=k6, effect=show(v)[:120],
                                                witness="p.replace(annotation=p.upgraded_annotation.source_value()) under the future flag evaluates a string value twice")
                            continue
                        if from_self or overridden:
                            if k not in seen:
                                seen.add(k)
                                check.holds(rule, site_of(m, m.node), '%s.replace re-establishes %r (receiver\'s value unless overridden)' % (cname, s_), key=k)
                        else:
                            k2 = k + '|value'
                            if k2 not in seen:
                                seen.add(k2)
                                check.violation(rule, site_of(m, m.node), '%s.replace sets %r to %s: neither the receiver\'s value nor an argument'
                                                % (cname, s_, show(v)[:60]), key=k2, witness='sig.replace(parameters=...) must keep provenance')
                    else:
                        if k not in seen:
                            seen.add(k)
                            check.holds(rule, site_of(m, m.node), '%s.__init__ assigns %r' % (cname, s_), key=k)
            check.floor(rule, 'paths of %s.%s' % (cname, mname), n, 1)
        # replace(): what the base class's replace() accepts as an override, the override must accept unchanged: the base keeps
        # the receiver's value only for its private `_void` sentinel, so None and empty values are legitimate overrides
        # (`replace(return_annotation=None)`, `replace(parameters=[])`); deciding "keep" by `is None` or by truthiness drops them
        m = ci.methods.get('replace')
        if m is not None:
            base_kw = ('parameters', 'return_annotation') if 'Signature' in cname else ('name', 'kind', 'default', 'annotation')
            itb = Interp(repo, Policy(try_forks=True))
            seenb = set()
            for p_ in itb.run(m):
                for atom, pol in p_.lits:
                    if atom[0] not in ('truthy', 'isnone'):
                        continue
                    nm = None
                    # the override itself, or the override after it went through a helper (`helper(kwargs.pop('parameters', None))`)
                    for t_ in subterms(atom[1]):
                        if not isinstance(t_, tuple) or not t_:
                            continue
                        if t_[0] == 'P' and t_[1] in base_kw:
                            nm = t_[1]
                        elif t_[0] == 'M' and t_[2] in ('pop', 'get') and t_[3] and t_[3][0][0] == 'K' and t_[3][0][1] in base_kw:
                            nm = t_[3][0][1]
                    if nm is None:
                        continue
                    kb = '%s|replace|base-override:%s' % (ci.key, nm)
                    if kb in seenb:
                        continue
                    seenb.add(kb)
                    check.violation(rule, site_of(m, m.node), '%s.replace decides whether %r was passed by %s: %s is a legitimate override for '
                                    'the base class (which keeps the old value only for its private sentinel), and it is silently ignored here'
                                    % (cname, nm, 'truthiness' if atom[0] == 'truthy' else 'an `is None` test',
                                       'an empty value' if atom[0] == 'truthy' else 'None'), key=kb,
                                    witness='sig.replace(parameters=[]) has no parameters; sig.replace(return_annotation=None) is "-> None"')
            # ... and the same decision taken at value level, in the arguments handed to super().replace():
            # `parameters=<override> or self.parameters.values()`
            for p_ in itb.run(m):
                for e_, g_ in walk_effects(p_.effects):
                    if e_.kind == 'call' and e_.op == '.replace' and e_.target is not None and e_.target[0] == 'C' and e_.target[1] == 'super':
                        for nm, v_ in e_.kws:
                            if nm not in base_kw:
                                continue
                            for s_ in subterms(v_):
                                sel = None
                                if s_[0] == 'B' and s_[1] == 'or':
                                    sel = s_[2]
                                elif s_[0] == 'IF' and s_[1][0] == 'lit' and s_[1][1][0] in ('truthy', 'isnone'):
                                    sel = s_[1][1][1]
                                if sel is None:
                                    continue
                                from_override = any(isinstance(x, tuple) and ((x[0] == 'P' and x[1] == nm) or
                                                                               (x[0] == 'M' and x[2] in ('pop', 'get') and x[3] and x[3][0] == K(nm)))
                                                    for x in subterms(sel))
                                kb = '%s|replace|base-override:%s' % (ci.key, nm)
                                if from_override and kb not in seenb:
                                    seenb.add(kb)
                                    check.violation(rule, site_of(m, e_.node), '%s.replace hands %s=%s to the base class: an empty/None override '
                                                    'falls through to the receiver\'s value' % (cname, nm, show(s_)[:70]), key=kb,
                                                    witness='sig.replace(parameters=[]) has no parameters')
            if not seenb:
                check.holds(rule, site_of(m, m.node), '%s.replace hands base-class overrides on without testing them for None/emptiness' % cname,
                            key='%s|replace|base-override' % ci.key)
        if m is not None and not only_base_overrides:
            it = Interp(repo, Policy(try_forks=True))
            paths = it.run(m)
            selft = ('P', m.params()[0][0])
            for s_ in slots:
                wins = False
                for p in paths:
                    if p.status != 'return':
                        continue
                    for e in p.effects:
                        if e.kind == 'store_attr' and e.target == p.value and e.op == s_:
                            v = e.args[0]
                            # the stored value depends on an argument of replace()
                            if any(isinstance(x, tuple) and x and x[0] in ('P', 'D') and x != selft for x in subterms(v)):
                                wins = True
                k = '%s|replace|override:%s' % (ci.key, s_)
                if wins:
                    check.holds(rule, site_of(m, m.node), '%s.replace(%s=...) overrides the receiver\'s value' % (cname, s_.lstrip('_')), key=k)
                else:
                    check.violation(rule, site_of(m, m.node), '%s.replace ignores an explicitly passed %s' % (cname, s_.lstrip('_')), key=k,
                                    witness='param.replace(upgraded_annotation=x).upgraded_annotation is x')


INHERITED = ['bind', 'bind_partial', '__str__', '__repr__', 'parameters', '_hash_basis', '_bind', 'from_callable',
             'return_annotation', 'empty', 'name', 'default', 'annotation', 'kind', '__reduce__', '__setstate__', '__format__']


def rule_nothing_else_overridden(check, rule):
    repo = check.repo
    for cname in UPGRADED:
        ci = repo.cls('%s:%s' % (SIG, cname))
        over = [n for n in INHERITED if n in ci.methods or n in ci.assigns]
        key = '%s|inherited' % ci.key
        st = '%s:%d %s' % (ci.module.relpath, ci.node.lineno, ci.key)
        if over:
            check.violation(rule, st, '%s overrides %s, which must behave exactly as for the inspect class' % (cname, ', '.join(over)), key=key,
                            witness='str()/bind()/bind_partial() of returned objects must match inspect')
        else:
            check.holds(rule, st, '%s inherits str/bind/bind_partial/parameters/_hash_basis unchanged' % cname, key=key)
        bases = repo.ext_bases(ci)
        key = '%s|base' % ci.key
        want = cname.replace('Upgraded', '')
        if any(b.endswith('.' + want) or b == want for b in bases):
            check.holds(rule, st, '%s derives from inspect.%s' % (cname, want), key=key)
        else:
            check.violation(rule, st, '%s does not derive from inspect.%s (bases: %s)' % (cname, want, bases), key=key)
    # UpgradedSignature.__init__ hands the parameter list to the base constructor
    ci = repo.cls(SIG + ':UpgradedSignature')
    m = ci.methods.get('__init__')
    if m is not None:
        sup = [n_ for n_ in ast.walk(m.node) if isinstance(n_, ast.Call) and isinstance(n_.func, ast.Attribute) and n_.func.attr == '__init__'
               and isinstance(n_.func.value, ast.Call) and norm(n_.func.value.func) == 'super']
        key = '%s|init-super' % ci.key
        pname = m.params()[0][1] if len(m.params()[0]) > 1 else None
        if sup and sup[0].args and isinstance(sup[0].args[0], ast.Name) and sup[0].args[0].id == pname:
            check.holds(rule, site_of(m, sup[0]), 'the (upgraded) parameter list goes to the validating base constructor', key=key)
        else:
            check.violation(rule, site_of(m, m.node), 'UpgradedSignature.__init__ does not pass its parameter list to the base constructor', key=key)


# ---------------------------------------------------------------------------
# C11

def rule_annotation_pairing(check, rule):
    """C11.R2: raw and upgraded annotation come from the same operand"""
    repo = check.repo
    # UpgradedParameter._upgrade
    fi = repo.func(SIG + ':UpgradedParameter._upgrade')
    check.analysed(fi)
    it = Interp(repo, Policy())
    paths = it.run(fi)
    check.absorb(it)
    inst = ('P', fi.params()[0][1])
    func = ('P', fi.params()[0][2])
    done = False
    for p in paths:
        for e in p.effects:
            if e.kind == 'call' and e.extra == 'new' and str(e.op).endswith('UpgradedParameter') or \
                    (e.kind == 'call' and e.target == ('P', fi.params()[0][0]) and e.extra == 'unresolved'):
                kws = dict(e.kws)
                if 'annotation' not in kws:
                    continue
                done = True
                key = '%s|pair' % fi.key
                ua = kws.get('upgraded_annotation')
                ok = kws['annotation'] == ('A', inst, 'annotation') and ua is not None and ua[0] == 'C' and str(ua[1]).endswith('.upgrade') \
                    and ('A', inst, 'annotation') in ua[2] and func in ua[2]
                if ok:
                    check.holds(rule, site_of(fi, e.node), 'annotation and upgraded_annotation both derive from the same parameter, upgraded with '
                                'the declaring function', key=key)
                else:
                    check.violation(rule, site_of(fi, e.node), 'UpgradedParameter._upgrade builds annotation=%s but upgraded_annotation=%s'
                                    % (show(kws['annotation'])[:40], show(ua)[:80] if ua else None), key=key,
                                    witness='param.upgraded_annotation.source_value() must denote param.annotation')
                for nm, want in (('name', ('A', inst, 'name')), ('kind', ('A', inst, 'kind')), ('default', ('A', inst, 'default')),
                                 ('function', func)):
                    k = '%s|field:%s' % (fi.key, nm)
                    if kws.get(nm) == want:
                        check.holds(rule, site_of(fi, e.node), 'upgrade keeps %s' % nm, key=k)
                    else:
                        check.violation(rule, site_of(fi, e.node), 'upgrade sets %s=%s' % (nm, show(kws.get(nm))[:40] if kws.get(nm) else None), key=k)
    if not done:
        check.inconclusive(rule, site_of(fi, fi.node), 'construction of the upgraded parameter not found', key='%s|pair' % fi.key)
    # UpgradedSignature._upgrade : return annotation
    fi = repo.func(SIG + ':UpgradedSignature._upgrade')
    check.analysed(fi)
    it = Interp(repo, Policy())
    paths = it.run(fi)
    check.absorb(it)
    inst = ('P', fi.params()[0][1])
    func = ('P', fi.params()[0][2])
    done = False
    for p in paths:
        for e in p.effects:
            if e.kind == 'call' and dict(e.kws).get('upgraded_return_annotation') is not None:
                kws = dict(e.kws)
                done = True
                ua = kws['upgraded_return_annotation']
                key = '%s|pair' % fi.key
                ok = kws.get('return_annotation') == ('A', inst, 'return_annotation') and ua[0] == 'C' and str(ua[1]).endswith('.upgrade') \
                    and ('A', inst, 'return_annotation') in ua[2] and func in ua[2]
                if ok:
                    check.holds(rule, site_of(fi, e.node), 'return annotation and its upgraded twin derive from the same signature and function', key=key)
                else:
                    check.violation(rule, site_of(fi, e.node), 'UpgradedSignature._upgrade builds return_annotation=%s, upgraded=%s'
                                    % (show(kws.get('return_annotation'))[:40], show(ua)[:80]), key=key)
                # parameters upgraded with the same function
                k2 = '%s|params' % fi.key
                plist = e.args[0] if e.args else kws.get('parameters')
                init = it.obj_init.get(plist) if plist else None
                if init is not None and init[0] == 'G' and init[2][0] == 'C' and str(init[2][1]).endswith('UpgradedParameter._upgrade') and func in init[2][2]:
                    check.holds(rule, site_of(fi, e.node), 'every parameter is upgraded with the declaring function', key=k2)
                else:
                    check.violation(rule, site_of(fi, e.node), 'parameters are not upgraded with the declaring function: %s' % show(init if init else plist)[:100],
                                    key=k2, witness='postponed annotations must be evaluated in the globals of the defining function')
    if not done:
        check.inconclusive(rule, site_of(fi, fi.node), 'construction of the upgraded signature not found', key='%s|pair' % fi.key)
    # evaluated()
    for cname, attr, ann in (('UpgradedParameter', 'upgraded_annotation', 'annotation'),
                             ('UpgradedSignature', 'upgraded_return_annotation', 'return_annotation')):
        fi = repo.func('%s:%s.evaluated' % (SIG, cname))
        check.analysed(fi)
        it = Interp(repo, Policy())
        paths = it.run(fi)
        check.absorb(it)
        selft = ('P', fi.params()[0][0])
        for p in paths:
            if p.status != 'return':
                continue
            v = p.value
            key = '%s|evaluated' % fi.key
            kws = dict(v[3]) if v[0] == 'C' else (dict(v[4]) if v[0] == 'M' else {})
            want = ('M', ('A', selft, attr), 'source_value', (), ())
            if kws.get(ann) == want:
                check.holds(rule, site_of(fi, fi.node), '%s.evaluated() replaces %s by %s.source_value()' % (cname, ann, attr), key=key)
            else:
                check.violation(rule, site_of(fi, fi.node), '%s.evaluated() sets %s=%s' % (cname, ann, show(kws.get(ann))[:60] if kws.get(ann) else None),
                                key=key, witness='evaluated() must resolve postponed annotations')
            if cname == 'UpgradedSignature':
                k2 = '%s|evaluated-params' % fi.key
                pl = kws.get('parameters')
                init = it.obj_init.get(pl) if pl else None
                if init is not None and init[0] == 'G' and init[2][0] == 'M' and init[2][2] == 'evaluated':
                    check.holds(rule, site_of(fi, fi.node), 'every parameter is evaluated as well', key=k2)
                else:
                    check.violation(rule, site_of(fi, fi.node), 'parameters are not evaluated: %s' % show(init if init else pl)[:80], key=k2)


def rule_evaluation_context(check, rule):
    """C11.R3"""
    repo = check.repo
    # source_value of the postponed wrapper
    fi = repo.func(SIG + ':_PostponedAnnotation.source_value')
    check.analysed(fi)
    it = Interp(repo, Policy())
    paths = it.run(fi)
    check.absorb(it)
    selft = ('P', fi.params()[0][0])
    ci = repo.cls(SIG + ':_PostponedAnnotation')
    fields = [n.target.id for n in ci.node.body if isinstance(n, ast.AnnAssign) and isinstance(n.target, ast.Name)]
    for p in paths:
        if p.status != 'return':
            continue
        v = p.value
        key = '%s|eval' % fi.key
        if v[0] == 'C' and v[1] == 'eval' and len(v[2]) >= 2:
            raw, glob = v[2][0], v[2][1]
            ok_raw = raw[0] == 'A' and raw[1] == selft and len(fields) >= 1 and raw[2] == fields[0]
            ok_glob = glob[0] == 'A' and glob[2] == '__globals__' and glob[1][0] == 'A' and glob[1][1] == selft and \
                len(fields) >= 2 and glob[1][2] == fields[1]
            if ok_raw and ok_glob:
                check.holds(rule, site_of(fi, fi.node), 'eval(<raw annotation>, <stored function>.__globals__, ...)', key=key)
            else:
                check.violation(rule, site_of(fi, fi.node), 'postponed annotations are evaluated as %s' % show(v)[:120], key=key,
                                witness='annotations must resolve in the globals of the function that defined them')
        else:
            check.violation(rule, site_of(fi, fi.node), 'postponed source_value() is %s, not an eval in the function globals' % show(v)[:80], key=key)
    # constructor argument order of the wrapper matches its fields
    up = repo.func(SIG + ':UpgradedAnnotation.upgrade')
    check.analysed(up)
    it = Interp(repo, Policy())
    paths = it.run(up)
    check.absorb(it)
    raw = ('P', up.params()[0][1])
    func = ('P', up.params()[0][2])
    n = 0
    for p in paths:
        if p.status != 'return':
            continue
        n += 1
        lits = dict(p.lits)
        v = p.value
        is_empty = None
        for a, pol in p.lits:
            if a[0] == 'is' and raw in (a[1], a[2]) and any(show(x).endswith('.empty') for x in (a[1], a[2])):
                is_empty = pol
            if a[0] == 'has_annotation':
                is_empty = not pol
        has_func = lits.get(('truthy', func))
        feat = None
        featnone = None
        for a, pol in p.lits:
            if a[0] == 'truthy' and a[1][0] == 'C' and str(a[1][1]).endswith('_is_co_flag_enabled'):
                feat = pol
            if a[0] == 'isnone' and a[1][0] == 'C' and str(a[1][1]).endswith('_is_co_flag_enabled'):
                featnone = pol
        vclass = 'other'
        if show(v).endswith('EmptyAnnotation'):
            vclass = 'empty'
        elif v[0] == 'O' and v[1].endswith('_PostponedAnnotation'):
            vclass = 'postponed'
        elif v[0] == 'O' and v[1].endswith('_PreEvaluatedAnnotation'):
            vclass = 'pre'
        key = '%s|%s' % (up.key, ' & '.join(show_lit(l) for l in p.lits)[:120])
        node = [e for e in p.effects if e.kind == 'return'][-1].node
        if is_empty is True:
            exp = 'empty'
        elif has_func is False:
            exp = 'empty'
        elif featnone is True:
            exp = 'empty'
        elif lits.get(('isinstance', raw, 'str')) is False:
            exp = 'pre'
        elif feat is True:
            # only source text can be a postponed annotation: a branch that has established the raw annotation is not text keeps it as it is
            # (D35; whether the text test is there at all is C14.R7's business)
            exp = 'pre' if lits.get(('isinstance', raw, 'str')) is False else 'postponed'
        elif feat is False:
            exp = 'pre'
        else:
            exp = None
        if exp is None:
            check.inconclusive(rule, site_of(up, node), 'branch of UpgradedAnnotation.upgrade not understood', key=key)
        elif vclass != exp:
            check.violation(rule, site_of(up, node), 'UpgradedAnnotation.upgrade returns the %s wrapper where the %s one is expected' % (vclass, exp),
                            key=key, guards=' & '.join(show_lit(l) for l in p.lits)[:200],
                            witness='functions compiled with `from __future__ import annotations` need the postponed wrapper, others the pre-evaluated one')
        else:
            ok = True
            if vclass in ('postponed', 'pre'):
                ce = [e for e in p.effects if e.kind == 'call' and e.result == v]
                args = ce[0].args if ce else ()
                if vclass == 'postponed' and tuple(args) != (raw, func):
                    ok = False
                    check.violation(rule, site_of(up, node), 'the postponed wrapper is built from %s, expected (raw annotation, function)'
                                    % ', '.join(show(a) for a in args), key=key)
                if vclass == 'pre' and tuple(args) != (raw,):
                    ok = False
                    check.violation(rule, site_of(up, node), 'the pre-evaluated wrapper is built from %s' % ', '.join(show(a) for a in args), key=key)
            if ok:
                check.holds(rule, site_of(up, node), 'upgrade -> %s wrapper' % vclass, key=key, guards=' & '.join(show_lit(l) for l in p.lits)[:200])
    check.floor(rule, 'paths of UpgradedAnnotation.upgrade', n, 3)
    # _is_co_flag_enabled table
    fi = repo.func(SIG + ':_is_co_flag_enabled')
    check.analysed(fi)
    it = Interp(repo, Policy(try_forks=True))
    paths = it.run(fi)
    check.absorb(it)
    obj = ('P', fi.params()[0][0])
    vals = set()
    for p in paths:
        if p.status == 'return':
            vals.add(show(p.value)[:300])
    key = '%s|table' % fi.key
    flag = [v for v in vals if 'co_flags' in v and 'compiler_flag' in v and 'BitAnd' in v]
    if 'None' in vals and 'True' in vals and 'False' in vals and flag:
        check.holds(rule, site_of(fi, fi.node), 'co-flag test: False without the feature, True once mandatory, the code flag otherwise, None without code',
                    key=key)
    else:
        check.violation(rule, site_of(fi, fi.node), '_is_co_flag_enabled returns %s: expected None / True / False / (co_flags & compiler_flag)' % sorted(vals),
                        key=key, witness='eagerly annotated functions must not be eval()ed; postponed ones must')


def rule_annotate(check, rule):
    """C11.R4: annotate wraps every supplied value with UpgradedAnnotation.preevaluated"""
    repo = check.repo
    fi = repo.func('modifiers:annotate.__call__')
    check.analysed(fi)
    it = Interp(repo, Policy())
    paths = it.run(fi)
    check.absorb(it)
    selft = ('P', fi.params()[0][0])
    okp = okr = False
    badp = badr = None
    for p in paths:
        for e, g in walk_effects(p.effects):
            if e.kind == 'call' and e.op == '.replace':
                kws = dict(e.kws)
                if 'annotation' in kws:
                    ua = kws.get('upgraded_annotation')
                    if ua is not None and ua[0] == 'C' and str(ua[1]).endswith('.preevaluated') and ua[2][-1] == kws['annotation']:
                        okp = True
                    else:
                        badp = e
                if 'return_annotation' in kws:
                    ua = kws.get('upgraded_return_annotation')
                    if ua is not None and ua[0] == 'C' and str(ua[1]).endswith('.preevaluated') and ua[2][-1] == kws['return_annotation']:
                        okr = True
                    else:
                        badr = e
    for ok, bad, what in ((okp, badp, 'parameter'), (okr, badr, 'return')):
        key = '%s|%s' % (fi.key, what)
        if bad is not None:
            check.violation(rule, site_of(fi, bad.node), 'annotate stores a %s annotation without the matching pre-evaluated wrapper: %s'
                            % (what, repr(bad)[:160]), key=key, witness='values given to modifiers.annotate are reported verbatim by evaluated()')
        elif ok:
            check.holds(rule, site_of(fi, fi.node), 'annotate wraps the %s annotation with UpgradedAnnotation.preevaluated(<same value>)' % what, key=key)
        else:
            check.violation(rule, site_of(fi, fi.node), 'annotate no longer stores %s annotations' % what, key=key)


def rule_no_rewrap_of_existing(check, rule):
    """C11.R2b: an annotation read from an existing parameter / signature may be a postponed string; wrapping it with
    UpgradedAnnotation.preevaluated() declares the *string* to be the value.  So no call of preevaluated() in the package
    may receive a term that can be `<param>.annotation` / `<sig>.return_annotation` (zero-expected: the self-test keeps a
    positive example)."""
    repo = check.repo
    n_calls = 0
    bad = []
    for fi in repo.all_funcs():
        calls = [n for n in ast.walk(fi.node) if isinstance(n, ast.Call) and isinstance(n.func, ast.Attribute) and n.func.attr == 'preevaluated']
        if not calls or fi.qualname.endswith('.preevaluated'):
            continue
        check.analysed(fi)
        it = Interp(repo, Policy())
        try:
            paths = it.run(fi)
        except Inconclusive:
            check.inconclusive(rule, site_of(fi, fi.node), 'paths of %s not enumerable' % fi.key, key='%s|rewrap' % fi.key)
            continue
        check.absorb(it)
        seen = set()
        for p in paths:
            for e, g in walk_effects(p.effects):
                if e.kind == 'call' and str(e.op).endswith('.preevaluated') and e.args:
                    arg = e.args[-1]
                    k = (e.node.lineno, show(arg))
                    if k in seen:
                        continue
                    seen.add(k)
                    n_calls += 1
                    raw = [s_ for s_ in subterms(arg) if isinstance(s_, tuple) and s_[0] == 'A' and s_[2] in ('annotation', 'return_annotation')]
                    key = '%s|rewrap|%s' % (fi.key, show(arg)[:60])
                    if raw:
                        check.violation(rule, site_of(fi, e.node), 'preevaluated() is applied to %s, which can be %s: a postponed (string) annotation '
                                        'written in the source is recorded as if the string were its value and is never evaluated in the '
                                        'defining module' % (show(arg)[:70], show(raw[0])[:50]), key=key,
                                        witness='from __future__ import annotations; @annotate(b=str) def f(a: int, b): evaluated() must give a: int')
                    else:
                        check.holds(rule, site_of(fi, e.node), 'preevaluated(%s): a value supplied by the caller, not read from an existing parameter'
                                    % show(arg)[:50], key=key)
    check.floor(rule, 'calls of UpgradedAnnotation.preevaluated', n_calls, 1)


def rule_annotation_pairing_sites(check, rule):
    """C11.R2c: every construction site in the package -- `UpgradedParameter(...)`, `<param>.replace(...)`, `cls(...)` -- that
    passes `annotation=<something read from Z.annotation>` must pass `upgraded_annotation=` read from the same Z
    (`Z.upgraded_annotation`, or `UpgradedAnnotation.upgrade(Z.annotation, ...)`).  Without it the new parameter gets the
    class default `EmptyAnnotation`: it prints the annotation but `evaluated()` / `source_value()` lose it."""
    repo = check.repo
    n = 0
    for fi in repo.all_funcs():
        if fi.module.name not in ('_signatures', 'modifiers', '_autoforwards', 'specifiers', 'wrappers', '_util'):
            continue
        for c in [x for x in ast.walk(fi.node) if isinstance(x, ast.Call)]:
            kws = dict((k.arg, k.value) for k in c.keywords if k.arg)
            for raw, up in (('annotation', 'upgraded_annotation'), ('return_annotation', 'upgraded_return_annotation')):
                if raw not in kws:
                    continue
                srcs = [norm(a.value) for a in ast.walk(kws[raw]) if isinstance(a, ast.Attribute) and a.attr == raw]
                if not srcs:
                    continue        # a value supplied by the caller: C11.R4's business
                n += 1
                key = '%s|pairing|%s|%s' % (fi.key, raw, norm(c.func)[:40])
                upv = kws.get(up)
                ok = upv is not None and any(
                    (isinstance(a, ast.Attribute) and a.attr in (up, raw) and norm(a.value) in srcs) for a in ast.walk(upv))
                if ok:
                    check.holds(rule, site_of(fi, c), '%s= and %s= are taken from the same object (%s)' % (raw, up, srcs[0]), key=key)
                elif up in kws and isinstance(kws[up], ast.Name):
                    # a local computed on the same branch: the path rules (C10.R1 / C11.R2) decide that one
                    check.holds(rule, site_of(fi, c), '%s= is a local decided next to %s=' % (up, raw), key=key, nontrivial=False)
                else:
                    check.violation(rule, site_of(fi, c), '%s(...) passes %s=%s but no %s from the same object: the new parameter carries the '
                                    'annotation text without its evaluation context (EmptyAnnotation)' % (norm(c.func)[:40], raw, norm(kws[raw])[:40], up),
                                    key=key, witness='partial(f, x=1) for def f(x: T): evaluated() drops the annotation of x')
    check.floor(rule, 'construction sites copying an annotation', n, 1)


def rule_upgrade_idempotent(check, rule):
    """C14.R3b / C15.R4c: `_upgrade(inst, ...)` of both upgraded classes hands an already upgraded object back unchanged.
    `_upgrade_parameters_with_warning` and `replace(parameters=...)` run *mixed* lists through it; re-building an upgraded
    parameter from the call's (empty) function/sources arguments strips its provenance and evaluation wrapper."""
    repo = check.repo
    for cname in UPGRADED:
        ci = repo.cls('%s:%s' % (SIG, cname))
        m = ci.methods.get('_upgrade')
        key = '%s|_upgrade|idempotent' % ci.key
        if m is None:
            check.violation(rule, '%s:%d %s' % (ci.module.relpath, ci.node.lineno, ci.key), '%s has no _upgrade' % cname, key=key)
            continue
        check.analysed(m)
        it = Interp(repo, Policy())
        paths = it.run(m)
        check.absorb(it)
        pos = m.params()[0]
        inst = ('P', pos[1]) if len(pos) > 1 else None
        ok = False
        for p in paths:
            if p.status != 'return':
                continue
            guard = any(a[0] == 'isinstance' and a[1] == inst and pol for a, pol in p.lits)
            if guard and p.value == inst:
                ok = True
        if ok:
            check.holds(rule, site_of(m, m.node), '%s._upgrade returns an instance of the class unchanged' % cname, key=key)
        else:
            check.violation(rule, site_of(m, m.node), '%s._upgrade has no "already upgraded -> return it" path: an upgraded object passed through it '
                            '(mixed parameter lists in replace(parameters=...) / UpgradedSignature(...)) is rebuilt from the empty function and '
                            'sources of that call and loses its provenance and upgraded annotation' % cname, key=key,
                            witness='sig.replace(parameters=[*sig.parameters.values(), inspect.Parameter(...)]) keeps the old parameters intact')


def rule_sibling_eq(check, rule):
    """C14.R1s: sibling agreement on equality.  When a package class defines a value-based `__eq__` for a whole family
    (UpgradedAnnotation: equal iff the source values are), a subclass that overrides `__eq__` with a relation of its own
    makes `a == b` depend on which operand is on the left: Python asks the left operand first (the right one only when it is
    a subclass of the left's class), and the siblings answer differently.  Also covers `eq=True`-style generated
    comparisons: attr.define must be `eq=False` for the family."""
    repo = check.repo
    n = 0
    for m in repo.modules.values():
        for ci in m.classes.values():
            fam = None
            for r in repo.class_bases(ci):
                if r[0] == 'class' and '__eq__' in r[1].methods:
                    fam = r[1]
            if fam is None:
                continue
            n += 1
            key = '%s|sibling-eq' % ci.key
            st = '%s:%d %s' % (ci.module.relpath, ci.node.lineno, ci.key)
            own = ci.methods.get('__eq__')
            gen = [d for d in ci.node.decorator_list if isinstance(d, ast.Call) and norm(d.func).split('.')[-1] in ('define', 's', 'attrs', 'dataclass')
                   and not any(k.arg == 'eq' and isinstance(k.value, ast.Constant) and k.value.value is False for k in d.keywords)]
            gen += [d for d in ci.node.decorator_list if not isinstance(d, ast.Call) and norm(d).split('.')[-1] in ('define', 's', 'attrs', 'dataclass')]
            if own is not None and not any(isinstance(x, ast.Attribute) and x.attr == '__eq__' for x in ast.walk(own.node)):
                check.violation(rule, site_of(own, own.node), '%s overrides the family\'s value-based __eq__ (%s.__eq__) with a relation of its own: '
                                'x == y and y == x differ whenever x is a %s and y a sibling with an equal value'
                                % (ci.name, fam.name, ci.name), key=key,
                                witness='sig == sig.evaluated() is False while sig.evaluated() == sig is True (un-annotated parameter)')
            elif gen:
                check.violation(rule, st, '%s gets a generated __eq__ (%s without eq=False) that replaces the family\'s value-based one' % (ci.name, norm(gen[0])[:40]),
                                key=key, witness='a postponed and a pre-evaluated annotation with the same value compare unequal one way round')
            else:
                check.holds(rule, st, '%s keeps the value-based __eq__ of %s' % (ci.name, fam.name), key=key)
    check.floor(rule, 'subclasses of a package class defining __eq__', n, 1)


# ---------------------------------------------------------------------------
# C14.R5 -- an iterable argument is traversed once, or materialised first

TRAVERSERS = ('all', 'any', 'list', 'tuple', 'sorted', 'set', 'dict', 'sum', 'min', 'max', 'len', 'enumerate', 'zip', 'map', 'filter', 'iter')


def rule_iterable_traversed_once(check, rule):
    """C14.R5: inspect.Signature takes its parameters as *any iterable* (it builds a tuple from it once).  A drop-in subclass that looks at
    the argument before handing it on -- "are they all upgraded?" -- has used up a generator by then, and the signature comes out
    empty.  In the functions the `parameters` argument of UpgradedSignature(...) / .replace(...) flows through, the iterable must be
    materialised (`list(...)`/`tuple(...)`, rebinding the name) before it is traversed, unless it is traversed only once in total
    (handing it on / returning it counts as the traversal the receiver will make)."""
    repo = check.repo
    fi = repo.func(SIG + ':_upgrade_parameters_with_warning', required=False)
    targets = []
    if fi is not None:
        targets.append((fi, fi.params()[0][0]))
    n = 0
    for fn, pname in targets:
        check.analysed(fn)
        n += 1
        key = '%s|iterable-once|%s' % (fn.key, pname)
        # statements in source order at the top level of the function; a rebinding `p = list(p)` / `tuple(p)` ends the hazard
        uses = []        # (node, kind) kind in traverse / handoff
        mat = None
        for st_ in fn.main_body:
            for x in ast.walk(st_):
                if isinstance(x, ast.Assign) and len(x.targets) == 1 and isinstance(x.targets[0], ast.Name) and x.targets[0].id == pname \
                        and isinstance(x.value, ast.Call) and isinstance(x.value.func, ast.Name) and x.value.func.id in ('list', 'tuple') \
                        and len(x.value.args) == 1 and isinstance(x.value.args[0], ast.Name) and x.value.args[0].id == pname:
                    if mat is None:
                        mat = x
            if mat is not None and any(x is mat for x in ast.walk(st_)):
                break
            for x in ast.walk(st_):
                if isinstance(x, (ast.comprehension,)) and isinstance(x.iter, ast.Name) and x.iter.id == pname:
                    uses.append((x.iter, 'traverse'))
                elif isinstance(x, ast.For) and isinstance(x.iter, ast.Name) and x.iter.id == pname:
                    uses.append((x.iter, 'traverse'))
                elif isinstance(x, ast.Call) and isinstance(x.func, ast.Name) and x.func.id in TRAVERSERS and any(isinstance(a, ast.Name) and a.id == pname for a in x.args):
                    uses.append((x, 'traverse'))
        # after (or without) the materialisation: how many traversals/hand-offs could hit the *original* iterable?
        if mat is not None and not uses:
            check.holds(rule, site_of(fn, mat), '%s materialises %r before looking at it' % (fn.name, pname), key=key)
            continue
        handoffs = []
        for x in ast.walk(fn.node):
            if isinstance(x, ast.Return) and isinstance(x.value, ast.Name) and x.value.id == pname:
                handoffs.append(x)
        total_before = len(uses)
        if mat is None:
            # every path: traversals + (return of the same object, which the caller traverses again)
            if total_before >= 1 and (handoffs or total_before >= 2):
                check.violation(rule, site_of(fn, uses[0][0]), '%s traverses its argument %r (%s) and then %s: a one-shot iterable (a generator) is empty '
                                'the second time, and the signature is built without parameters'
                                % (fn.name, pname, norm(uses[0][0])[:40], 'returns the same object to be traversed again' if handoffs else 'traverses it again'),
                                key=key, witness='UpgradedSignature(p for p in params) must equal inspect.Signature(p for p in params)')
            else:
                check.holds(rule, site_of(fn, fn.node), '%s traverses %r at most once' % (fn.name, pname), key=key)
        else:
            check.violation(rule, site_of(fn, uses[0][0]), '%s traverses %r (%s) before materialising it' % (fn.name, pname, norm(uses[0][0])[:40]), key=key,
                            witness='UpgradedSignature(p for p in params)')
    # the callers hand the raw argument to that helper before anything else looks at it
    us = repo.cls('%s:UpgradedSignature' % SIG)
    for mname in ('__init__', 'replace'):
        m = us.methods.get(mname)
        if m is None:
            continue
        calls = [c for c in ast.walk(m.node) if isinstance(c, ast.Call) and norm(c.func) == '_upgrade_parameters_with_warning']
        key = 'UpgradedSignature.%s|iterable-once' % mname
        if calls:
            n += 1
            check.holds(rule, site_of(m, calls[0]), 'UpgradedSignature.%s passes the parameter iterable through the helper (nothing else traverses it first)' % mname,
                        key=key)
    check.floor(rule, 'functions the parameters iterable flows through', n, 1)


def rule_eq_does_not_evaluate(check, rule):
    """C14.R1e: "== and != return a bool without raising".  UpgradedAnnotation.__eq__ compares the *evaluated* annotations
    (`source_value()`), and UpgradedParameter/UpgradedSignature.__eq__ end in that comparison.  An implementation of
    `source_value` that runs `eval` on source text (postponed annotations, PEP 563) outside a handler lets whatever the
    evaluation raises -- NameError for a name imported under TYPE_CHECKING only -- out of the comparison."""
    repo = check.repo
    base = repo.cls('%s:UpgradedAnnotation' % SIG)
    eq = base.methods.get('__eq__')
    if eq is None:
        check.holds(rule, '-', 'UpgradedAnnotation defines no __eq__ of its own', key='eq-evaluates|none', nontrivial=False)
        return
    check.analysed(eq)
    called = set(c.func.attr for c in ast.walk(eq.node) if isinstance(c, ast.Call) and isinstance(c.func, ast.Attribute) and isinstance(c.func.value, ast.Name))
    n = 0
    for m in repo.modules.values():
        for ci in m.classes.values():
            if ci is not base and not any(r[0] == 'class' and r[1] is base for r in repo.class_bases(ci)):
                continue
            for mname in sorted(called):
                meth = ci.methods.get(mname)
                if meth is None:
                    continue
                n += 1
                check.analysed(meth)
                evals = [c for c in ast.walk(meth.node) if isinstance(c, ast.Call) and isinstance(c.func, ast.Name) and c.func.id in ('eval', 'exec')]
                key = 'eq-evaluates|%s.%s' % (ci.name, mname)
                unguarded = []
                for c in evals:
                    t = c
                    guarded = False
                    while getattr(t, '_parent', None) is not None and t is not meth.node:
                        par = t._parent
                        if isinstance(par, ast.Try) and t in par.body and any(
                                h.type is None or norm(h.type).split('.')[-1] in ('Exception', 'BaseException') for h in par.handlers):
                            guarded = True
                        t = par
                    if not guarded:
                        unguarded.append(c)
                if unguarded:
                    check.violation(rule, site_of(meth, unguarded[0]), '%s.%s evaluates source text with %s(), and UpgradedAnnotation.__eq__ calls it without a '
                                    'handler: comparing two signatures whose postponed annotation names something that does not exist at run time '
                                    'raises instead of answering' % (ci.name, mname, unguarded[0].func.id), key=key,
                                    witness='from __future__ import annotations; if TYPE_CHECKING: from decimal import Decimal; def f(a: Decimal): ...; '
                                            'sigtools.signature(f) != signatures.signature(f) raises NameError')
                else:
                    check.holds(rule, site_of(meth, meth.node), '%s.%s does not evaluate source text (or does so under a handler)' % (ci.name, mname), key=key)
    check.floor(rule, 'implementations reached from UpgradedAnnotation.__eq__', n, 2)


def dominated_by(fi, node, atom):
    """is `node` only reached after a test established the fact `atom` recognises?  `atom(test, pol)` says whether the leaf test `test`, taken
    with polarity `pol`, establishes it.  Recognised shapes: an enclosing `if`/`elif`/`while`/conditional expression/`and` operand (negated forms
    with the node in the other branch, `and`/`or` split by De Morgan), an earlier `assert`, an earlier guard clause `if <not fact>: raise/return/
    continue/break` in an enclosing block."""
    def says(test, pol):
        if isinstance(test, ast.UnaryOp) and isinstance(test.op, ast.Not):
            return says(test.operand, not pol)
        if isinstance(test, ast.BoolOp) and isinstance(test.op, ast.And) and pol:
            return any(says(v, True) for v in test.values)
        if isinstance(test, ast.BoolOp) and isinstance(test.op, ast.Or) and not pol:
            return any(says(v, False) for v in test.values)
        return atom(test, pol)
    t = node
    while getattr(t, '_parent', None) is not None and t is not fi.node:
        par = t._parent
        if isinstance(par, (ast.If, ast.While)):
            if t in par.body and says(par.test, True):
                return True
            if isinstance(par, ast.If) and t in par.orelse and says(par.test, False):
                return True
        if isinstance(par, ast.IfExp):
            if t is par.body and says(par.test, True):
                return True
            if t is par.orelse and says(par.test, False):
                return True
        if isinstance(par, ast.BoolOp) and t in par.values:
            i = par.values.index(t)
            if isinstance(par.op, ast.And) and any(says(v, True) for v in par.values[:i]):
                return True
            if isinstance(par.op, ast.Or) and any(says(v, False) for v in par.values[:i]):
                return True
        for field in ('body', 'orelse', 'finalbody'):
            blk = getattr(par, field, None)
            if isinstance(blk, list) and t in blk:
                for s_ in blk[:blk.index(t)]:
                    if isinstance(s_, ast.Assert) and says(s_.test, True):
                        return True
                    if isinstance(s_, ast.If) and not s_.orelse and isinstance(s_.body[-1], (ast.Raise, ast.Return, ast.Continue, ast.Break)) \
                            and says(s_.test, False):
                        return True
        t = par
    return False


def _is_text_atom(txt):
    def atom(test, pol):
        if not pol or not isinstance(test, ast.Call) or norm(test.func) != 'isinstance' or len(test.args) != 2 or norm(test.args[0]) != txt:
            return False
        ty = test.args[1]
        tys = ty.elts if isinstance(ty, ast.Tuple) else [ty]
        return all(norm(t_) in ('str', 'bytes', 'types.CodeType') for t_ in tys)
    return atom


def _attrs_fields(ci):
    """field names, in declaration order, of an attrs/dataclass-style class (annotated class-level names)"""
    return [s.target.id for s in ci.node.body if isinstance(s, ast.AnnAssign) and isinstance(s.target, ast.Name)]


def rule_eval_operand_is_text(check, rule):
    """C14.R7: "== and != return a bool without raising".  `eval()` accepts source text (or a code object) only; whatever else reaches it is a
    TypeError, and UpgradedAnnotation.__eq__ ends in the `source_value` implementations.  For each `eval(E, ...)` there: E is text at the call
    (an isinstance test dominates it), or E is a field of the class and every construction of the class in the package hands that field a
    value an isinstance test established as text.  Classifying an annotation as postponed from the compiler flag of the function alone does
    not: functools.wraps over a function of another module, or __annotations__ resolved in place, puts evaluated objects under that flag."""
    repo = check.repo
    base = repo.cls('%s:UpgradedAnnotation' % SIG)
    n = sites = 0
    for m in repo.modules.values():
        for ci in m.classes.values():
            if ci is not base and not any(r[0] == 'class' and r[1] is base for r in repo.class_bases(ci)):
                continue
            for mname, meth in sorted(ci.methods.items()):
                selfname = (meth.params()[0] or [None])[0]
                for c in ast.walk(meth.node):
                    if not (isinstance(c, ast.Call) and isinstance(c.func, ast.Name) and c.func.id == 'eval' and c.args):
                        continue
                    n += 1
                    check.analysed(meth)
                    from .callgraph import resolve_once
                    e = resolve_once(meth.node, c.args[0])
                    key = 'eval-text|%s.%s' % (ci.name, mname)
                    if isinstance(e, ast.Constant) and isinstance(e.value, str) or dominated_by(meth, c, _is_text_atom(norm(e))):
                        check.holds(rule, site_of(meth, c), 'eval() is handed text: a test at the call establishes it', key=key)
                        continue
                    fields = _attrs_fields(ci)
                    if not (isinstance(e, ast.Attribute) and isinstance(e.value, ast.Name) and e.value.id == selfname and e.attr in fields
                            and '__init__' not in ci.methods):
                        check.violation(rule, site_of(meth, c), 'eval(%s) in %s.%s: nothing establishes that the operand is source text' % (norm(e), ci.name, mname),
                                        key=key, witness='an annotation that is an already evaluated object')
                        continue
                    idx, kw = fields.index(e.attr), e.attr.lstrip('_')
                    bad = []
                    sites = 0
                    for fi in repo.all_funcs():
                        for call in _own_nodes(fi.node):
                            if not (isinstance(call, ast.Call) and isinstance(call.func, ast.Name) and call.func.id == ci.name
                                    and fi.module is ci.module):
                                continue
                            arg = call.args[idx] if len(call.args) > idx else next((k.value for k in call.keywords if k.arg == kw), None)
                            sites += 1
                            check.analysed(fi)
                            if arg is None or not (isinstance(arg, ast.Constant) and isinstance(arg.value, str)
                                                   or dominated_by(fi, call, _is_text_atom(norm(arg)))):
                                bad.append((fi, call, arg))
                    if not sites:
                        check.inconclusive(rule, site_of(meth, c), 'no construction of %s found in its module' % ci.name, key=key)
                    elif bad:
                        fi, call, arg = bad[0]
                        check.violation(rule, site_of(fi, call), '%s(%s, ...) is built although nothing on the way establishes that %s is source text, and %s.%s '
                                        'hands it to eval(): comparing a signature whose annotations are evaluated objects found under a function compiled '
                                        'with postponed evaluation raises TypeError' % (ci.name, norm(arg) if arg is not None else '?', norm(arg) if arg is not None else '?', ci.name, mname),
                                        key=key, witness='from __future__ import annotations; functools.wraps(g)(w) with g from a module without it: '
                                                         'sigtools.signature(w) == sigtools.signature(w) raises TypeError')
                    else:
                        check.holds(rule, site_of(meth, c), 'eval(%s): every construction of %s (%d) passes a value tested to be text' % (norm(e), ci.name, sites), key=key)
    check.floor(rule, 'eval() calls reached from UpgradedAnnotation.__eq__', n, 1)


def rule_eq_reflexive(check, rule):
    """C14.R8: "equality is reflexive".  inspect.Signature/Parameter.__eq__ answer `self is other` before comparing anything.  An override keeps
    that when (a) it has the identity shortcut itself, before any comparison, or (b) it first takes super().__eq__(other) (shortcut inherited;
    C14.R1 checks how the result is used) and every further `==` compares the same plain attribute of the two operands -- reflexive as soon as
    the attribute's own class is, which this rule checks for every class of the package.  Comparing values computed by calls (two evaluations
    of an annotation give two objects) without the shortcut is not reflexive."""
    repo = check.repo
    n = 0
    for m in repo.modules.values():
        for ci in m.classes.values():
            eq = ci.methods.get('__eq__')
            if eq is None:
                continue
            pos = eq.params()[0]
            if len(pos) < 2:
                continue
            me, other = pos[0], pos[1]
            n += 1
            check.analysed(eq)
            key = 'eq-reflexive|%s' % ci.name

            def ident(test):
                """+1: test says identical, -1: says not identical, 0: neither"""
                pol = 1
                while isinstance(test, ast.UnaryOp) and isinstance(test.op, ast.Not):
                    test, pol = test.operand, -pol
                if isinstance(test, ast.Compare) and len(test.ops) == 1 and isinstance(test.ops[0], (ast.Is, ast.IsNot)) \
                        and set([norm(test.left), norm(test.comparators[0])]) == set([me, other]):
                    return pol if isinstance(test.ops[0], ast.Is) else -pol
                return 0

            def computed_compare(node):
                """an `==`/`!=` between values that are not the same plain attribute of the two operands"""
                for x in ast.walk(node):
                    if isinstance(x, ast.Compare) and any(isinstance(o, (ast.Eq, ast.NotEq)) for o in x.ops):
                        ops = [x.left] + list(x.comparators)
                        plain = all(isinstance(o, ast.Attribute) and isinstance(o.value, ast.Name) and o.value.id in (me, other) for o in ops)
                        if not (plain and len(set(o.attr for o in ops)) == 1):
                            return x
                return None

            def returns_true(stmts):
                return bool(stmts) and isinstance(stmts[0], ast.Return) and isinstance(stmts[0].value, ast.Constant) and stmts[0].value.value is True

            def scan(stmts):
                """'shortcut' | offending compare node | None (end reached)"""
                for s in stmts:
                    if isinstance(s, ast.If):
                        i = ident(s.test)
                        if i:
                            same, rest = (s.body, s.orelse) if i > 0 else (s.orelse, s.body)
                            if returns_true(same):
                                return 'shortcut'
                    bad = computed_compare(s)
                    if bad is not None:
                        return bad
                return None

            res = scan(eq.main_body)
            if res == 'shortcut':
                check.holds(rule, site_of(eq, eq.node), '%s.__eq__ answers `%s is %s` before comparing anything computed' % (ci.name, me, other), key=key)
            elif res is None:
                sup = any(isinstance(c, ast.Call) and isinstance(c.func, ast.Attribute) and c.func.attr == '__eq__' and isinstance(c.func.value, ast.Call)
                          and norm(c.func.value.func) == 'super' for c in ast.walk(eq.node))
                if sup:
                    check.holds(rule, site_of(eq, eq.node), '%s.__eq__ starts from super().__eq__ (identity shortcut inherited) and further compares plain '
                                'attributes of the two operands only' % ci.name, key=key)
                else:
                    check.holds(rule, site_of(eq, eq.node), '%s.__eq__ compares plain attributes of the two operands only' % ci.name, key=key)
            else:
                check.violation(rule, site_of(eq, res), '%s.__eq__ compares computed values (%s) without first answering `%s is %s`: an object whose '
                                'computed value has no value equality (a fresh object per evaluation, NaN) is unequal to itself, unlike its inspect '
                                'counterpart' % (ci.name, norm(res)[:70], me, other), key=key,
                                witness="from __future__ import annotations; def f(a: Annotated[int, object()]): ...; s = sigtools.signature(f); s == s is False")
    check.floor(rule, '__eq__ overrides', n, 3)


def rule_replace_restricts_sources(check, rule):
    """C08.R8 (D47): "nothing refers to a parameter that is not in the signature".  inspect derives the signature of a bound method, of a
    class from its __init__, of an instance from its __call__ by `sig.replace(parameters=params[1:])` on the signature it found -- which is
    an UpgradedSignature whenever the function carries one in __signature__ (modifiers.annotate, kwoargs, ...).  On every path of
    UpgradedSignature.replace that is given new parameters and no provenance map, the map of the result is not the receiver's map as it
    is (which still has the entry of the dropped parameter) but one restricted to the parameters that are left."""
    repo = check.repo
    ci = repo.cls('%s:UpgradedSignature' % SIG)
    m = ci.methods.get('replace')
    if m is None:
        check.holds(rule, '-', 'UpgradedSignature does not override replace', key='replace-restricts|none', nontrivial=False)
        return
    check.analysed(m)
    it = Interp(repo, Policy(try_forks=True))
    paths = it.run(m)
    check.absorb(it)
    selft = ('P', m.params()[0][0])
    n = 0
    bad = None
    for p in paths:
        if p.status != 'return':
            continue
        pv = None
        for e, g in walk_effects(p.effects):
            if e.kind == 'call' and e.op == '.replace' and e.target is not None and e.target[0] == 'C' and e.target[1] == 'super':
                pv = dict(e.kws).get('parameters')
        sv = None
        for e in p.effects:
            if e.kind == 'store_attr' and e.op == 'sources' and e.args:
                sv = e.args[0]
        if pv is None or sv is None:
            continue
        given = any(isinstance(x, tuple) and ((x[0] == 'M' and x[2] in ('pop', 'get') and x[3] and x[3][0] == K('parameters')) or
                                              (x[0] == 'P' and x[1] == 'parameters')) for x in subterms(pv))
        if not given:
            continue
        if any(a[0] == 'is' and a[1] == a[2] and not pol for a, pol in p.lits):
            continue        # `x is x` answered no: not a path
        n += 1
        if sv == ('A', selft, 'sources'):
            bad = bad or p
    key = 'replace-restricts|UpgradedSignature'
    if bad is not None:
        node = [e for e in bad.effects if e.kind == 'store_attr' and e.op == 'sources'][-1].node
        check.violation(rule, site_of(m, node), 'UpgradedSignature.replace(parameters=...) keeps the receiver\'s provenance map as it is: the entries of '
                        'the parameters that were dropped stay, and the signature inspect derives for a bound method (or a class, an instance) of a '
                        'function carrying an UpgradedSignature has a source entry for a `self` it does not have', key=key,
                        witness="class A:\n    @modifiers.annotate(x=int)\n    def method(self, x): ...\n'self' in sigtools.signature(A().method).sources")
    else:
        check.holds(rule, site_of(m, m.node), 'replace(parameters=...) without a provenance map gives the result a map restricted to the new parameters '
                    '(%d paths)' % n, key=key)
    check.floor(rule, 'paths of replace() that are given parameters', n, 1)


def rule_annotate_survives_discovery(check, rule):
    """C11.R5 (D54, known): "values given to modifiers.annotate are reported verbatim ... through automatic discovery".  annotate leaves
    its result in the function's `__signature__` only.  Automatic discovery of a function that forwards its star parameters reads the
    function's own def with `__wrapped__` and `__signature__` set aside (the attribute list of the delete/restore window) and embeds the
    callee in *that* signature, so the annotations (and the return annotation) given to annotate are gone from sigtools.signature(f),
    while inspect.signature(f) and sigtools.signature(f, auto=False) report them.  Holds when annotate also tells discovery which signature
    to start from (an autoforwards hint, as the other modifiers do), or the window no longer sets `__signature__` aside."""
    repo = check.repo
    ann = repo.func('modifiers:annotate.__call__')
    check.analysed(ann)
    stores_sig = [a for a in ast.walk(ann.node) if isinstance(a, ast.Assign) and any(isinstance(t, ast.Attribute) and t.attr == '__signature__'
                                                                                   for t in a.targets)]
    hints = [a for a in ast.walk(ann.node) if isinstance(a, (ast.Assign, ast.Call)) and '_sigtools__autoforwards_hint' in norm(a)]
    ci = repo.cls('modifiers:annotate')
    hints = hints or ('_sigtools__autoforwards_hint' in ci.methods)
    win = repo.cls('_autoforwards:cleanup_functools_wrapper', required=False)
    aside = False
    if win is not None:
        v = win.assigns.get('attrs')
        aside = v is not None and any(isinstance(e, ast.Constant) and e.value == '__signature__' for e in ast.walk(v))
    key = 'annotate-lost-in-discovery'
    st = site_of(ann, stores_sig[0] if stores_sig else ann.node)
    if stores_sig and aside and not hints:
        check.violation(rule, st, 'annotate leaves its result in __signature__ only, which automatic discovery sets aside (cleanup_functools_wrapper.attrs) '
                        'before it reads the signature it embeds the callee in: the annotations are lost for every function that forwards its star '
                        'parameters', key=key,
                        witness="@annotate('ret', a='x')\ndef outer(a, *args, **kwargs): return inner(*args, **kwargs)\nsigtools.signature(outer) has no "
                                "annotation on a and no return annotation; inspect.signature(outer) and signature(outer, auto=False) have both")
    else:
        check.holds(rule, st, 'what annotate records is visible to automatic discovery', key=key)


def rule_concile_compares_denotation(check, rule):
    """C11.R6 (D55, known): "computing on functions compiled with `from __future__ import annotations` and then calling evaluated() gives the
    same result as computing on eagerly annotated twins ... including identically spelled names bound to different objects".  Where two
    inputs both annotate a parameter, merge keeps the annotation only when they agree.  Deciding that on the raw `.annotation` compares
    source text under PEP 563 and objects otherwise: `a: T` with T bound to different classes in the two modules is kept (the left one) by
    the postponed computation and dropped by the eager twin; differently spelled names of one object the other way round.  The decision
    has to be taken on what the annotations denote (the upgraded annotations)."""
    repo = check.repo
    fi = repo.func('%s:_Merger._concile_meta' % SIG)
    check.analysed(fi)
    pos = fi.params()[0]
    n = 0
    for x in ast.walk(fi.node):
        if not (isinstance(x, ast.Compare) and len(x.ops) == 1 and isinstance(x.ops[0], (ast.Eq, ast.NotEq))):
            continue
        ops = [x.left, x.comparators[0]]
        if not all(isinstance(o, ast.Attribute) and isinstance(o.value, ast.Name) and o.value.id in pos for o in ops):
            continue
        if not any('annotation' in o.attr for o in ops):
            continue
        n += 1
        key = 'concile-annotation-compare'
        st = site_of(fi, x)
        if all(o.attr == 'annotation' for o in ops):
            check.violation(rule, st, '%s: agreement of the two annotations is decided on the raw values -- source text when postponed, objects when '
                            'eager -- so the postponed and the eager computation of the same merge differ' % norm(x), key=key,
                            witness="module A: T = int; def f(a: T); module B: T = str; def g(a: T) -- merge keeps `a: T` (A's) when both are compiled "
                                    "with postponed evaluation, and drops the annotation for the eager twins")
        else:
            check.holds(rule, st, '%s: agreement is decided on the upgraded annotations' % norm(x), key=key)
    check.floor(rule, 'annotation comparisons in _concile_meta', n, 1)


def rule_annotations_paired_with_owner(check, rule):
    """C11.R7 (D56): "the object that annotation denotes in the globals of the function that defined it".  Plain retrieval reads the
    signature with inspect.signature, which follows `__wrapped__`: the annotations it reports belong to the function at the end of that
    chain.  Upgrading them against the object retrieval started from evaluates postponed text in the globals of a functools.wraps wrapper
    (another module's `T`, or NameError) and decides eager/postponed by the wrapper's compiler flag.  In set_default_sources the function
    handed to the upgrade is obtained by following the same chain (inspect.unwrap), not the subject itself."""
    repo = check.repo
    fi = repo.func('%s:set_default_sources' % SIG)
    check.analysed(fi)
    pos = fi.params()[0]
    n = 0
    for c in ast.walk(fi.node):
        if not (isinstance(c, ast.Call) and norm(c.func).endswith('_upgrade') and len(c.args) >= 2):
            continue
        n += 1
        a1 = c.args[1]
        key = 'annotations-owner|%s' % fi.key
        st = site_of(fi, c)
        follows = False
        if isinstance(a1, ast.Call):
            if norm(a1.func).endswith('unwrap'):
                follows = True
            elif isinstance(a1.func, ast.Name):
                h = fi.module.funcs.get(a1.func.id)
                if h is not None and any(isinstance(x, ast.Call) and norm(x.func).endswith('unwrap') for x in ast.walk(h.node)):
                    follows = True
                    check.analysed(h)
        if follows:
            check.holds(rule, st, 'the annotations are upgraded against the function at the end of the __wrapped__ chain', key=key)
        elif isinstance(a1, ast.Name) and a1.id in pos:
            check.violation(rule, st, 'the annotations inspect.signature read through __wrapped__ are upgraded against the retrieval subject `%s` itself: '
                            'for a functools.wraps wrapper of another module they are evaluated in the wrong globals' % a1.id, key=key,
                            witness="lib.py (postponed): T = ...; def f(x: T); deco.py: T = ...; w = functools.wraps(f)(w) -- "
                                    "signatures.signature(w).parameters['x'].upgraded_annotation.source_value() is deco.T")
        else:
            check.inconclusive(rule, st, 'function handed to the upgrade not understood: %s' % norm(a1)[:60], key=key)
    check.floor(rule, 'upgrades in set_default_sources', n, 1)


def rule_disagreement_remembered(check, rule):
    """C10.R6 (D57, known): merge folds pairwise.  When both sides annotate a parameter differently, _concile_meta answers with *no*
    annotation -- the same value it gives when nobody annotated it -- so the next step of the fold cannot tell "they disagreed" from
    "unannotated" and adopts the third input's annotation: merge(x: 1, x: 2, x: 3) is (x: 3), and the result depends on the order of the
    inputs (merge(x:1, x:2, x:1) keeps 1, merge(x:1, x:1, x:2) drops it).  A conciliation whose 'disagree' outcome differs from its
    'absent' outcome (as the one for defaults does, with None) does not have this."""
    repo = check.repo
    fi = repo.func('%s:_Merger._concile_meta' % SIG)
    check.analysed(fi)
    pos = fi.params()[0]
    n = 0
    for x in ast.walk(fi.node):
        if not isinstance(x, ast.If):
            continue
        t = x.test
        if not (isinstance(t, ast.Compare) and len(t.ops) == 1 and isinstance(t.ops[0], (ast.Eq, ast.NotEq))):
            continue
        ops = [t.left, t.comparators[0]]
        if not all(isinstance(o, ast.Attribute) and 'annotation' in o.attr for o in ops):
            continue
        n += 1
        key = 'concile-disagreement|annotation'
        st = site_of(fi, x)
        disagree = x.orelse if isinstance(t.ops[0], ast.Eq) else x.body
        if not disagree:
            check.violation(rule, st, 'when the two annotations differ nothing is recorded: the result is as unannotated as if neither side had one, and '
                            'the next step of an n-ary merge adopts whatever the third signature says', key=key,
                            witness="merge(s('x: 1'), s('x: 2'), s('x: 3')) is (x: 3); merge(x:1, x:2, x:1) is (x: 1) but merge(x:1, x:1, x:2) is (x)")
        else:
            check.holds(rule, st, 'a disagreement between the two annotations is recorded as something else than absence', key=key)
    check.floor(rule, 'annotation agreement tests in _concile_meta', n, 1)


def rule_replace_returns_fresh(check, rule):
    """C16.R2b / C14.R3c (round 8): callers of `replace()` -- apply_params first of all -- assign attributes on what it returns, and the alias
    analysis of C16 takes `replace()` for a constructor.  That is only true of the package's own overrides if every returning path hands
    back the object `super().replace(...)` built: a shortcut `return self` when "nothing changes" makes apply_params write the provenance
    map of the *input* signature."""
    repo = check.repo
    n = 0
    for cname in UPGRADED:
        ci = repo.cls('%s:%s' % (SIG, cname))
        m = ci.methods.get('replace')
        if m is None:
            continue
        n += 1
        check.analysed(m)
        selfn = m.params()[0][0]
        key = 'replace-fresh|%s' % cname
        bad = [r for r in ast.walk(m.node) if isinstance(r, ast.Return) and isinstance(r.value, ast.Name) and r.value.id == selfn]
        if bad:
            check.violation(rule, site_of(m, bad[0]), '%s.replace returns the receiver itself on some path: its callers assign attributes on the result '
                            '(apply_params sets .sources), which then edits the input' % cname, key=key,
                            witness="merge(a, b) with a result equal to a: a.sources is replaced by the merged map")
        else:
            check.holds(rule, site_of(m, m.node), '%s.replace never returns its receiver' % cname, key=key)
    check.floor(rule, 'replace overrides', n, 2)


def rule_owner_capability_test(check, rule):
    """C11.R8 (round 8): the function annotations are upgraded against must be able to answer two questions -- its compiler flags
    (`__code__.co_flags`) and its globals.  The helpers that pick it accept a candidate by *that capability* (`hasattr(x, '__code__')`): a
    test on its type (inspect.isfunction, isinstance FunctionType) turns away bound methods, which have both, and their annotations are
    then evaluated in the wrapper's module or left as text."""
    repo = check.repo
    n = 0
    for name in ('_annotations_owner', '_copied_annotations_owner'):
        fi = repo.func('%s:%s' % (SIG, name), required=False)
        if fi is None:
            continue
        n += 1
        check.analysed(fi)
        key = 'owner-capability|%s' % name
        type_tests = [c for c in ast.walk(fi.node) if isinstance(c, ast.Call) and (
            norm(c.func).split('.')[-1] in ('isfunction', 'ismethod', 'isroutine') or
            (norm(c.func) == 'isinstance' and len(c.args) == 2 and 'Type' in norm(c.args[1])))]
        cap = [c for c in ast.walk(fi.node) if isinstance(c, ast.Call) and norm(c.func) in ('hasattr', 'getattr') and len(c.args) >= 2
               and isinstance(c.args[1], ast.Constant) and c.args[1].value == '__code__']
        if type_tests:
            check.violation(rule, site_of(fi, type_tests[0]), '%s accepts the owner by its type (%s): a bound method has code and globals too, and is '
                            'turned away' % (name, norm(type_tests[0])[:50]), key=key,
                            witness='functools.wraps(instance.method)(w) with the method defined in another (postponed) module')
        elif cap:
            check.holds(rule, site_of(fi, cap[0]), '%s accepts the owner by what evaluation needs of it (__code__)' % name, key=key)
        else:
            check.inconclusive(rule, site_of(fi, fi.node), 'how %s accepts the owner is not understood' % name, key=key)
    check.floor(rule, 'owner helpers', n, 1)


def rule_no_whole_parameter_equality(check, rule):
    """C01.R7b (round 8; D39's family): `left == right` on two Parameter objects compares their defaults and annotations with `==` before
    anything has established that both *have* one: Parameter.empty equals a default whose __eq__ answers True for everything, so a
    shortcut "they are equal, nothing to concile" keeps a default the other side does not have.  The methods of the merger do not compare
    whole parameters."""
    repo = check.repo
    ci = repo.cls('%s:_Merger' % SIG)
    n = 0
    bad = []
    for meth in ci.methods.values():
        pos = set(meth.params()[0][1:])
        for c in ast.walk(meth.node):
            if isinstance(c, ast.Compare) and len(c.ops) == 1 and isinstance(c.ops[0], (ast.Eq, ast.NotEq)):
                n += 1
                a, b = c.left, c.comparators[0]
                if isinstance(a, ast.Name) and isinstance(b, ast.Name) and a.id in pos and b.id in pos:
                    bad.append((meth, c))
        check.analysed(meth)
    key = 'whole-parameter-equality|_Merger'
    if bad:
        meth, c = bad[0]
        check.violation(rule, site_of(meth, c), '%s in %s compares two parameters as wholes: their defaults are compared with == before it is known '
                        'that both have one (Parameter.empty == mock.ANY)' % (norm(c), meth.name), key=key,
                        witness="merge(signature(lambda a=mock.ANY: 0), s('a')) keeps the default the right input does not have")
    else:
        check.holds(rule, '%s:%d %s' % (ci.module.relpath, ci.node.lineno, ci.key), 'no method of _Merger compares two parameters as wholes (%d equality '
                    'tests looked at)' % n, key=key)


def rule_eq_answers(check, rule):
    """C14.R9 (mutant sweep 5): "returns a bool ... symmetric also against plain inspect objects carrying the same data".  In the __eq__ of an
    upgraded class: no path answers None; on a path where the base class said *equal* and the other operand is not an upgraded object (a
    plain inspect object carrying the same data) the answer is True (or the base's answer), never a constant False."""
    repo = check.repo
    n = 0
    for cname in UPGRADED:
        ci = repo.cls('%s:%s' % (SIG, cname))
        eq = ci.methods.get('__eq__')
        if eq is None:
            continue
        check.analysed(eq)
        it = Interp(repo, Policy())
        paths = it.run(eq)
        check.absorb(it)
        key = 'eq-answers|%s' % cname
        problems = []
        for p in paths:
            if p.status not in ('return', 'fall'):
                continue
            n += 1
            v = p.value
            if p.status == 'fall' or v == NONE or v == K(None):
                problems.append('a path answers None (%s)' % (' & '.join(show_lit(l) for l in p.lits)[:80] or 'no condition'))
                continue
            sup_true = any(a[0] == 'truthy' and a[1][0] == 'M' and a[1][2] == '__eq__' and pol for a, pol in p.lits) or \
                any(a[0] == 'truthy' and 'super' in show(a[1]) and pol for a, pol in p.lits)
            other_upgraded = None
            for a, pol in p.lits:
                if a[0] == 'isinstance' and 'Upgraded' in str(a[2]):
                    other_upgraded = pol
            if sup_true and other_upgraded is False and v == K(False):
                problems.append('the base class found the operands equal, the other one is a plain inspect object, and the answer is False')
            if not p.lits and v[0] == 'K':
                problems.append('answers the constant %r whatever the operands are' % (v[1],))
        st = site_of(eq, eq.node)
        if problems:
            check.violation(rule, st, '%s.__eq__: %s' % (cname, '; '.join(sorted(set(problems))[:2])), key=key,
                            witness='sigtools.signature(f) == inspect.signature(f) must be True, and never None')
        else:
            check.holds(rule, st, '%s.__eq__ answers a bool on every path and agrees with the base class against plain objects' % cname, key=key)
    check.floor(rule, 'paths of the __eq__ overrides', n, 6)


def rule_replace_slot_polarity(check, rule):
    """C14.R3d (mutant sweep 5): `p.replace(name=…)` without `function=` / `sources=` / … keeps what the receiver has: each added slot of
    UpgradedParameter.replace gets the receiver's value exactly when its argument is the `UNSET` marker, and the argument otherwise.  A
    slot assigned the raw argument (the marker itself when nothing was passed), or the two arms the other way round, loses it."""
    repo = check.repo
    ci = repo.cls('%s:UpgradedParameter' % SIG)
    m = ci.methods.get('replace')
    if m is None:
        check.holds(rule, '-', 'UpgradedParameter does not override replace', key='replace-polarity|none', nontrivial=False)
        return
    check.analysed(m)
    it = Interp(repo, Policy())
    paths = it.run(m)
    check.absorb(it)
    selft = ('P', m.params()[0][0])
    slots = [s_ for s_ in (added_slots(ci) or [])]
    n = 0
    for s_ in slots:
        arg = s_.lstrip('_')
        vals = []
        for p in paths:
            for e in p.effects:
                if e.kind == 'store_attr' and e.op == s_ and e.args:
                    vals.append(e.args[0])
        if not vals:
            continue
        n += 1
        key = 'replace-polarity|%s' % s_
        v = vals[-1]
        own = ('A', selft, s_)
        ok = False
        why = 'is %s' % show(v)[:70]
        if v[0] == 'IF' and v[1][0] == 'lit' and v[1][1][0] == 'is' and ('P', arg) in v[1][1][1:] and any('UNSET' in show(x) for x in v[1][1][1:]):
            pol = v[1][2]
            unset_arm, given_arm = (v[2], v[3]) if pol else (v[3], v[2])
            ok = unset_arm == own and given_arm == ('P', arg)
            if not ok:
                why = 'takes %s when nothing is passed and %s when something is' % (show(unset_arm)[:30], show(given_arm)[:30])
        elif len(set(map(repr, vals))) > 1:
            # an if-statement form: one path stores the receiver's value, another the argument -- the path rules of C14.R3 judge those
            ok = any(x == own for x in vals) and any(x == ('P', arg) for x in vals)
        st = site_of(m, m.node)
        if ok:
            check.holds(rule, st, 'replace keeps the receiver\'s %r unless %s= is passed' % (s_, arg), key=key)
        else:
            check.violation(rule, st, 'UpgradedParameter.replace: the slot %r %s -- a replace() that does not mention %s= must keep the receiver\'s value'
                            % (s_, why, arg), key=key, witness='p.replace(name="x")._function is p._function')
    check.floor(rule, 'added slots re-established by UpgradedParameter.replace', n, 3)


def rule_no_self_comparison(check, rule, classes=('_Merger',), functions=('_embed', '_mask')):
    """(mutant sweep 5) a comparison of an expression with itself decides nothing: `r_param.name == r_param.name` where the two sides of a
    merge were meant takes every pair of positional parameters for namesakes.  No test of the algebra compares a side with itself."""
    repo = check.repo
    m = repo.module(SIG)
    fis = [f for f in m.funcs.values() if (f.cls is not None and f.cls.name in classes) or (f.cls is None and f.name in functions)]
    n = 0
    bad = []
    for fi in fis:
        for c in ast.walk(fi.node):
            if isinstance(c, ast.Compare) and len(c.ops) == 1:
                n += 1
                if norm(c.left) == norm(c.comparators[0]) and not isinstance(c.left, ast.Constant):
                    bad.append((fi, c))
    key = 'self-comparison|algebra'
    if bad:
        fi, c = bad[0]
        check.analysed(fi)
        check.violation(rule, site_of(fi, c), '%s in %s compares an expression with itself' % (norm(c), fi.name), key=key,
                        witness='merge of two signatures whose positional parameters have different names')
    else:
        check.holds(rule, '%s %s' % (m.relpath, SIG), 'no comparison of an expression with itself in the algebra (%d comparisons)' % n, key=key)
